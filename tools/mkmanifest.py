#!/usr/bin/env python3
"""Writes /verif/MANIFEST.json from the table below (kept in one place so it stays valid)."""
import json, os
here = os.path.dirname(os.path.dirname(os.path.abspath(__file__)))
props = [json.loads(l) for l in open(os.path.join(here, 'properties.jsonl'))]

EXPL = "exploration"
MC = "model_checking"
FE = "fault_enumeration"

# property -> (level, technique, level text, level note, design ref, engine)
claimed = {
 "C01": (EXPL, "bounded exhaustive enumeration of grammars x inputs x entry rules, each replayed on the compiled parser against a reference PEG interpreter",
         "All grammars of the enumerated families (every expression up to a size bound over every operator) x all inputs up to a length bound x every entry rule: verdict and consumed prefix of the real generated+compiled parser equal the reference interpreter's. Exhaustive within the bounds; the bounds are the assurance limit.",
         "small-scope hypothesis; reference interpreter; Go toolchain", "§5 C01", "A"),
}
def load_claims():
    p = os.path.join(here, 'tools', 'claims.json')
    if os.path.exists(p):
        for k, v in json.load(open(p)).items():
            claimed[k] = tuple(v)
load_claims()

checks = []
na = []
na_reasons = json.load(open(os.path.join(here, 'tools', 'na.json'))) if os.path.exists(os.path.join(here, 'tools', 'na.json')) else {}
for p in props:
    pid = p['id']
    if pid in claimed:
        level, tech, text, note, ref, eng = claimed[pid]
        checks.append({
            "property_id": pid,
            "quick_cmd": f"./bin/pegmc check {pid} --tier quick",
            "thorough_cmd": f"./bin/pegmc check {pid} --tier thorough",
            "evidence_file": f"/verif/evidence/{pid}.json",
            "replay_cmd_template": "./bin/pegmc replay {path}",
            "engine": eng,
            "level_claimed": {"category": level, "text": text, "design_ref": ref},
            "level_note": note,
            "technique": tech,
        })
    else:
        na.append({"property_id": pid, "reason": na_reasons.get(pid, "check not built yet in this session (planned, see DESIGN.md §5); nothing is claimed for it")})

m = {
 "version": 1,
 "setup_cmd": "cd /verif && ./setup.sh",
 "hooks": {
   "guard": "verif",
   "enable": "no hook is committed to /repo: instrumentation (scheduler yield points, sync shim) is generated at check time from the current working tree and applied with `go build -overlay`; generated parsers are probed by a same-package file written next to them in /verif/work",
   "baseline_off_cmd": "cd /repo && GOFLAGS=-mod=mod GOPROXY=off go test -vet=off -count=1 ./set/ .",
   "source_commits": [],
   "add_only": True
 },
 "engines": [
   {"name": "A", "path": "internal/engine, internal/runner, internal/ri, internal/families, internal/reader, internal/front", "serves_properties": ["C01","C02","C03","C04","C05","C06","C07","C08","C10","C11","C13","C15","C17"], "kind_free_text": "bounded exhaustive grammar x input exploration of the real generator and of the parsers it emits (compiled), against a reference PEG interpreter; independent reader of the documented syntax"},
   {"name": "B", "path": "cmd/setmc, internal/runner/history.go", "serves_properties": ["C12","C16"], "kind_free_text": "explicit-state exploration: structural states of set.Set to a fixpoint; all operation histories up to a depth on one parser instance"},
   {"name": "C", "path": "internal/sched, internal/conc, internal/c09h, cmd/pegmc/c09.go, cmd/pegmc/c14.go", "serves_properties": ["C09","C14"], "kind_free_text": "source instrumenter (overlay, no committed hooks) + controlled cooperative scheduler + stateless DFS with iterative preemption bounding; separate free-running -race pass"},
   {"name": "D", "path": "cmd/pegmc/cli.go, cmd/pegmc/c18.go", "serves_properties": ["C15","C18"], "kind_free_text": "CLI configuration matrix on the real binary + syscall fault-point enumeration with strace injection"},
 ],
 "checks": checks,
 "not_applicable": na,
 "notes": "All checks rebuild the generator and every parser from /repo's working tree; results are cached under /verif/.cache keyed by a content hash of /repo and of the framework binary."
}
json.dump(m, open(os.path.join(here, 'MANIFEST.json'), 'w'), indent=1)
print("claimed:", [c['property_id'] for c in checks])
