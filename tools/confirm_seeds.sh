#!/bin/bash
# Official confirmation: apply each seeded change to /repo itself, run the checks that should catch it, undo it straight afterwards.
# Nothing else may use /repo or run checks while this script runs.
cd /verif
for id in "$@"; do
  checks=$(python3 -c "import json;print(' '.join(json.load(open('/verif/seeded/$id/meta.json'))['checks_that_catch_it']))")
  out=/verif/seeded/$id/confirmed.txt
  {
    echo "# $id: git -C /repo apply seeded/$id/patch.diff ; quick checks ; git -C /repo checkout -- ."
    if ! git -C /repo apply /verif/seeded/$id/patch.diff; then echo "PATCH DOES NOT APPLY"; continue; fi
    (cd /repo && GOFLAGS=-mod=mod GOPROXY=off go test -vet=off -count=1 ./set/ . 2>&1 | tail -2)
    for c in $checks; do
      VERIF_EVIDENCE_DIR=/tmp/seeds/$id/evidence ./bin/pegmc check $c 2>/dev/null | grep -E "^(OK|FAIL|VIOLATION)" | head -3 | cut -c1-200
    done
    git -C /repo checkout -- .
    echo "# undone: $(git -C /repo status --short | wc -l) modified files left"
  } > $out 2>&1
  echo "confirmed $id"
done
