#!/bin/bash
# usage: tools/evalseed.sh Cxx [checks...]   — evaluates a seeded change living in /tmp/wt/Cxx (dev helper)
# env: SEEDWT, SEEDOUT (directories), PEGMC (binary, default ./bin/pegmc), EVALTAG (suffix of the eval file)
id=$1; shift
WT=${SEEDWT:-/tmp/wt}/$id; OUT=${SEEDOUT:-/tmp/seeds}/$id
export GOFLAGS=-mod=mod GOPROXY=off
{
echo "== existing tests on changed tree"
(cd $WT && go test -vet=off -count=1 ./set/ . 2>&1 | tail -3)
echo "== demo on changed tree"
(bash $OUT/demo/run_demo.sh $WT > $OUT/demo_changed.log 2>&1; echo "exit $?")
echo "== demo on pristine export"
P=$(mktemp -d /tmp/pristine.XXXX); git -C /repo archive HEAD | tar -x -C $P
(bash $OUT/demo/run_demo.sh $P > $OUT/demo_pristine.log 2>&1; echo "exit $?")
rm -rf $P
checks="$@"; [ -z "$checks" ] && checks=$(python3 -c "import json;print(' '.join(c['property_id'] for c in json.load(open('/verif/MANIFEST.json'))['checks']))")
for c in $checks; do
  echo "== check $c"
  (cd /verif && VERIF_REPO=$WT VERIF_EVIDENCE_DIR=$OUT/evidence timeout 1800 ${PEGMC:-./bin/pegmc} check $c 2>/dev/null | grep -E "^(OK|FAIL|VIOLATION|  )" | head -4 | cut -c1-300)
done
} > $OUT/eval${EVALTAG:+.$EVALTAG}.txt 2>&1
echo "done $id"
