#!/bin/bash
# Re-creates ${SEEDWT:-/tmp/wt}/<id> at /repo's HEAD with the seed's patch applied (peg.peg.go regenerated when the patch touched it).
id=$1
export GOFLAGS=-mod=mod GOPROXY=off
git -C /repo worktree remove --force ${SEEDWT:-/tmp/wt}/$id 2>/dev/null
rm -rf ${SEEDWT:-/tmp/wt}/$id
git -C /repo worktree add -q --detach ${SEEDWT:-/tmp/wt}/$id HEAD || exit 1
cd ${SEEDWT:-/tmp/wt}/$id
if ! git apply --3way --exclude=peg.peg.go ${SEEDOUT:-/tmp/seeds}/$id/patch.diff 2>${SEEDOUT:-/tmp/seeds}/$id/apply.err; then
  echo "$id: patch does not apply"; cat ${SEEDOUT:-/tmp/seeds}/$id/apply.err | head -5; exit 1
fi
git reset -q
if grep -q '^diff --git a/peg.peg.go' ${SEEDOUT:-/tmp/seeds}/$id/patch.diff; then
  for i in 1 2 3; do go build -o /tmp/peg_rb_$id . && /tmp/peg_rb_$id -inline -switch peg.peg || { echo "$id: regeneration failed"; exit 1; }; done
  rm -f /tmp/peg_rb_$id
fi
git diff > ${SEEDOUT:-/tmp/seeds}/$id/patch.rebased.diff
go test -vet=off -count=1 ./set/ . 2>&1 | tail -2 | tr '\n' ' '
echo "$id rebased: $(git status --short | tr '\n' ' ')"
