module verif

go 1.25

require github.com/pointlander/peg v0.0.0

replace github.com/pointlander/peg => /repo
