#!/bin/bash
# Builds the framework from files on disk only (offline).
set -e
cd "$(dirname "$0")"
export GOFLAGS=-mod=mod GOPROXY=off
unset GOSUMDB GOTOOLCHAIN
mkdir -p bin .cache/gocache evidence work
cp /repo/go.sum go.sum 2>/dev/null || true
export GOCACHE="$PWD/.cache/gocache"
go build -o bin/pegmc ./cmd/pegmc
# warm the dedicated build cache (stdlib + runner libraries) and self-test the reference model
./bin/pegmc selftest
