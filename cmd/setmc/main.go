// setmc: explicit-state exploration of github.com/pointlander/peg/set (property C16).
// Built at check time against the repository's current working tree.
//
// States are *structural*: the canonical key of a state is the list of (Begin, End) nodes, not
// its extension, because {1-2}{3-4} and {1-4} are different implementation states with the same
// meaning. Breadth-first search from NewSet() applying every AddRange over the universe; the
// closure is then extended with the results of Complement, Union and Copy of reached states.
// Every state and every ordered pair of states is compared with a bit-vector model.
package main

import (
	"encoding/json"
	"fmt"
	"math/bits"
	"os"
	"regexp"
	"strconv"
	"strings"
	"sync/atomic"
	"time"

	"github.com/pointlander/peg/set"
)

type recipe struct {
	kind   byte // 'n' new, 'a' AddRange, 'c' Complement, 'u' Union, 'y' Copy
	p1, p2 int
	b, e   int32
}

type state struct {
	rec   recipe
	key   string
	model uint64
	depth int
	live  *set.Set
}

type violation struct {
	ID     string `json:"id"`
	Op     string `json:"op"`
	State  string `json:"state"`
	State2 string `json:"state2,omitempty"`
	Recipe string `json:"recipe"`
	Want   string `json:"want"`
	Got    string `json:"got"`
}

type result struct {
	L           int         `json:"L"`
	Base        int64       `json:"base"`
	States      int         `json:"states"`
	AddStates   int         `json:"states_reached_by_addrange_only"`
	Transitions int64       `json:"transitions"`
	Checks      int64       `json:"checks"`
	Pairs       int64       `json:"pairs"`
	Nontrivial  int64       `json:"nontrivial_states"`
	MaxDepth    int         `json:"max_depth"`
	Fixpoint    bool        `json:"fixpoint"`
	Cap         int         `json:"cap"`
	Violations  []violation `json:"violations"`
	ViolationN  int         `json:"violation_n"`
	Hung        string      `json:"hung,omitempty"`
	ByKind      map[string]int `json:"violations_by_kind"`
	Samples     []string    `json:"samples"`
	WallS       float64     `json:"wall_s"`
}

const (
	lowBit   = uint64(1) << 63 // the whole region [0, base) is in the set
	weirdBit = uint64(1) << 62 // the region [0, base) is partially covered (never expected)
)

var base int64 // value of window position 0

func val(i int32) rune { return rune(base + int64(i)) }

var (
	states []*state
	index  = map[string]int{}
	res    result
	seenV  = map[string]bool{}
)

func report(op string, s, s2 *state, want, got string) {
	v := violation{Op: op, State: s.key, Recipe: recipeString(s), Want: want, Got: got}
	if s2 != nil {
		v.State2 = s2.key
		v.Recipe += " ; " + recipeString(s2)
	}
	v.ID = op + "|" + v.State + "|" + v.State2 + "|" + got
	if seenV[v.ID] {
		return
	}
	seenV[v.ID] = true
	res.ViolationN++
	res.ByKind[op]++
	if len(res.Violations) < 400 {
		res.Violations = append(res.Violations, v)
	}
}

func recipeString(s *state) string {
	var rec func(i int) string
	rec = func(i int) string {
		r := states[i].rec
		switch r.kind {
		case 'n':
			return "NewSet()"
		case 'a':
			return fmt.Sprintf("%s.AddRange(%d,%d)", rec(r.p1), val(r.b), val(r.e))
		case 'c':
			return fmt.Sprintf("%s.Complement(%d)", rec(r.p1), val(r.b))
		case 'u':
			return fmt.Sprintf("%s.Union(%s)", rec(r.p1), rec(r.p2))
		case 'y':
			return fmt.Sprintf("%s.Copy()", rec(r.p1))
		}
		return "?"
	}
	if i, ok := index[s.key]; ok && states[i] == s {
		return rec(i)
	}
	// not yet registered: describe through its recipe
	r := s.rec
	switch r.kind {
	case 'a':
		return fmt.Sprintf("%s.AddRange(%d,%d)", rec(r.p1), val(r.b), val(r.e))
	case 'c':
		return fmt.Sprintf("%s.Complement(%d)", rec(r.p1), val(r.b))
	case 'u':
		return fmt.Sprintf("%s.Union(%s)", rec(r.p1), rec(r.p2))
	case 'y':
		return fmt.Sprintf("%s.Copy()", rec(r.p1))
	}
	return "NewSet()"
}

// key walks the node list defensively. ok=false when the structure is not a finite
// doubly linked list ending in the tail sentinel (operations on it may not terminate).
func key(s *set.Set, limit int) (k string, ok bool) {
	var sb strings.Builder
	n := s.Head.Forward
	if n == nil {
		if s.Tail.Backward != nil {
			return "head-nil/tail-set", false
		}
		return "{}", true
	}
	steps := 0
	prev := &s.Head
	for n.Forward != nil {
		if n.Backward != prev {
			return sb.String() + "!backlink", false
		}
		fmt.Fprintf(&sb, "[%d-%d]", n.Begin, n.End)
		prev = n
		n = n.Forward
		steps++
		if steps > limit {
			return sb.String() + "!cycle", false
		}
	}
	if n != &s.Tail || s.Tail.Backward != prev {
		return sb.String() + "!tail", false
	}
	if sb.Len() == 0 {
		return "{}", true
	}
	return sb.String(), true
}

// watchdog: the operations under test are called in the main goroutine; if one of them does not
// return within a very generous limit the run reports it as a violation (the call would never
// return: every operation is a walk over a handful of nodes) and stops.
var (
	opStart atomic.Int64
	opDesc  atomic.Value
	outPath string
)

func enter(desc func() string) { opDesc.Store(desc); opStart.Store(time.Now().UnixNano()) }
func leave() {
	if st := opStart.Load(); st != 0 && os.Getenv("SETMC_SLOW") != "" {
		if d := time.Since(time.Unix(0, st)); d > 50*time.Millisecond {
			fmt.Fprintf(os.Stderr, "slow op (%v): %s\n", d, opDesc.Load().(func() string)())
		}
	}
	opStart.Store(0)
}

func watchdog(limit time.Duration) {
	for {
		time.Sleep(500 * time.Millisecond)
		st := opStart.Load()
		if st != 0 && time.Since(time.Unix(0, st)) > limit {
			d := opDesc.Load().(func() string)()
			res.ViolationN++
			res.ByKind["does-not-terminate"]++
			res.Violations = append(res.Violations, violation{ID: "does-not-terminate|" + d, Op: "does-not-terminate", Recipe: d, Want: "the call returns", Got: fmt.Sprintf("no return after %v", limit)})
			res.Hung = d
			res.States = len(states)
			b, _ := json.MarshalIndent(&res, "", " ")
			if outPath != "" {
				_ = os.WriteFile(outPath, b, 0o644)
			} else {
				fmt.Println(string(b))
			}
			os.Exit(3)
		}
	}
}

func protect(f func()) (pan string) {
	defer func() {
		if e := recover(); e != nil {
			pan = fmt.Sprint(e)
		}
	}()
	f()
	return
}

func describe(r recipe) string {
	name := func(i int) string { return states[i].key + " (= " + recipeString(states[i]) + ")" }
	switch r.kind {
	case 'a':
		return fmt.Sprintf("%s . AddRange(%d,%d)", name(r.p1), val(r.b), val(r.e))
	case 'c':
		return fmt.Sprintf("%s . Complement(%d)", name(r.p1), val(r.b))
	case 'u':
		return fmt.Sprintf("%s . Union( %s )", name(r.p1), name(r.p2))
	case 'y':
		return fmt.Sprintf("%s . Copy()", name(r.p1))
	}
	return "NewSet()"
}

// clone rebuilds the node list of a (structurally validated) set without using the
// package's own Copy, which is under test.
func clone(src *set.Set) *set.Set {
	dst := &set.Set{Head: set.Node{Begin: src.Head.Begin, End: src.Head.End}, Tail: set.Node{Begin: src.Tail.Begin, End: src.Tail.End}}
	if src.Head.Forward == nil {
		return dst
	}
	prev := &dst.Head
	for n := src.Head.Forward; n.Forward != nil; n = n.Forward {
		c := &set.Node{Begin: n.Begin, End: n.End, Backward: prev}
		prev.Forward = c
		prev = c
	}
	prev.Forward = &dst.Tail
	dst.Tail.Backward = prev
	return dst
}

func build(r recipe) (s *set.Set, pan string) {
	enter(func() string { return describe(r) })
	defer leave()
	pan = protect(func() {
		switch r.kind {
		case 'n':
			s = set.NewSet()
		case 'a':
			s = clone(states[r.p1].live)
			s.AddRange(val(r.b), val(r.e))
		case 'c':
			s = clone(states[r.p1].live).Complement(val(r.b))
		case 'u':
			s = clone(states[r.p1].live).Union(clone(states[r.p2].live))
		case 'y':
			s = clone(states[r.p1].live).Copy()
		}
	})
	return
}

func opName(k byte) string {
	return map[byte]string{'n': "NewSet", 'a': "AddRange", 'c': "Complement", 'u': "Union", 'y': "Copy"}[k]
}

// structExt is the meaning of a structurally valid node list: the union of its intervals
// (an inverted interval contributes nothing).
func structExt(s *set.Set) (m uint64) {
	if s.Head.Forward == nil {
		return 0
	}
	var lowCovered int64
	for n := s.Head.Forward; n.Forward != nil; n = n.Forward {
		for x := int32(0); x < int32(winHi)+1; x++ {
			if v := val(x); v >= n.Begin && v <= n.End {
				m |= 1 << uint(x)
			}
		}
		if base > 0 && n.End >= n.Begin {
			lo, hi := int64(n.Begin), min(int64(n.End), base-1)
			if lo < 0 {
				lo = 0
			}
			if hi >= lo {
				lowCovered += hi - lo + 1
			}
		}
	}
	if base > 0 && lowCovered == base {
		m |= lowBit
	} else if lowCovered != 0 {
		m |= weirdBit
	}
	return
}

var winHi int // highest window position observed (L+3 where representable, else L+1)

func complementModel(m uint64, lim int32) uint64 {
	w := rangeMask(0, lim) &^ m
	if base > 0 && m&lowBit == 0 {
		w |= lowBit
	}
	return w
}

func card(m uint64) int {
	n := bits.OnesCount64(m &^ (lowBit | weirdBit))
	if m&lowBit != 0 {
		n += int(base)
	}
	return n
}

func modelStr(m uint64) string {
	var parts []string
	if m&lowBit != 0 {
		parts = append(parts, fmt.Sprintf("0..%d", base-1))
	}
	if m&weirdBit != 0 {
		parts = append(parts, "part-of-[0,base)")
	}
	for i := 0; i < 62; i++ {
		if m&(1<<uint(i)) != 0 {
			parts = append(parts, strconv.FormatInt(base+int64(i), 10))
		}
	}
	return "{" + strings.Join(parts, " ") + "}"
}

func rangeMask(b, e int32) uint64 {
	var m uint64
	for i := b; i <= e; i++ {
		m |= 1 << uint(i)
	}
	return m
}

var intRe = regexp.MustCompile(`-?\d+`)

// extension observes the set through Has only.
func extension(s *set.Set, hi int) (m uint64, pan string) {
	pan = protect(func() {
		for x := 0; x <= winHi; x++ {
			if s.Has(val(int32(x))) {
				m |= 1 << uint(x)
			}
		}
		if base > 0 {
			probes := []rune{0, 1, rune(base / 2), rune(base - 2), rune(base - 1)}
			n := 0
			for _, p := range probes {
				if s.Has(p) {
					n++
				}
			}
			if n == len(probes) {
				m |= lowBit
			} else if n != 0 {
				m |= weirdBit
			}
		}
	})
	return
}

// add registers a state (if its structure is new) and checks its per-state invariants.
func add(rec recipe, model uint64, depth int, L int) (idx int, isNew bool) {
	s, pan := build(rec)
	tmp := &state{rec: rec, model: model, depth: depth}
	if pan != "" {
		tmp.key = "(panicked)"
		report("build-panic", tmp, nil, "no panic", pan)
		return -1, false
	}
	k, ok := key(s, 4*(L+4))
	tmp.key = k
	if !ok {
		report("corrupt-structure", tmp, nil, "finite doubly linked interval list", k)
		return -1, false
	}
	// The expected meaning of the result (computed on the model from the operands' meanings) must
	// equal the meaning of the structure the operation produced. On disagreement the operation is
	// reported, and exploration continues from the structure as it is (with its own meaning), so
	// that one defect does not cascade into every later check.
	if ext := structExt(s); ext != model {
		report(opName(rec.kind), tmp, nil, modelStr(model), k+" = "+modelStr(ext))
		tmp.model = ext
		model = ext
	}
	if i, have := index[k]; have {
		return i, false
	}
	tmp.live = s
	states = append(states, tmp)
	idx = len(states) - 1
	index[k] = idx
	if depth > res.MaxDepth {
		res.MaxDepth = depth
	}
	checkState(tmp, L)
	return idx, true
}

func checkState(st *state, L int) {
	enter(func() string { return "Has/Len/String/Copy on " + st.key + " (= " + recipeString(st) + ")" })
	defer leave()
	s := st.live
	hi := L + 3
	res.Checks++
	got, pan := extension(s, hi)
	if pan != "" {
		report("Has-panic", st, nil, "no panic", pan)
		return
	}
	if got != st.model {
		report("Has", st, nil, modelStr(st.model), modelStr(got))
	}
	res.Checks++
	var n int
	if pan := protect(func() { n = s.Len() }); pan != "" {
		report("Len-panic", st, nil, "no panic", pan)
	} else if n != card(st.model) {
		report("Len", st, nil, strconv.Itoa(card(st.model)), strconv.Itoa(n))
	}
	res.Checks++
	var str string
	if st.model&lowBit != 0 {
		// the element list would have `base` entries: String is not called on these states
	} else if pan := protect(func() { str = s.String() }); pan != "" {
		report("String-panic", st, nil, "no panic", pan)
	} else {
		var m uint64
		asc := true
		last := int64(-1)
		for _, d := range intRe.FindAllString(str, -1) {
			v, _ := strconv.ParseInt(d, 10, 64)
			if v <= last {
				asc = false
			}
			last = v
			if v >= base && v-base < 62 {
				m |= 1 << uint(v-base)
			} else {
				asc = false
			}
		}
		if m != st.model || !asc {
			report("String", st, nil, "ascending list of "+modelStr(st.model), str)
		}
	}
	// Copy: equal and independent
	res.Checks++
	var c *set.Set
	if pan := protect(func() { c = s.Copy() }); pan != "" {
		report("Copy-panic", st, nil, "no panic", pan)
	} else {
		ck, ok := key(c, 4*(L+4))
		if e, _ := extension(c, hi); !ok || e != st.model {
			report("Copy", st, nil, modelStr(st.model), ck)
		} else {
			protect(func() { c.AddRange(val(0), val(int32(L+1))) })
			if k2, _ := key(s, 4*(L+4)); k2 != st.key {
				report("Copy-aliasing", st, nil, "original unchanged after mutating the copy: "+st.key, k2)
				st.live, _ = build(st.rec)
			}
		}
	}
	if k2, _ := key(s, 4*(L+4)); k2 != st.key {
		report("observer-mutates", st, nil, st.key, k2)
		st.live, _ = build(st.rec)
	}
}

func main() {
	start := time.Now()
	L := 4
	capN := 20000
	rounds := 2
	out := ""
	for i := 1; i < len(os.Args); i++ {
		switch os.Args[i] {
		case "-L":
			L, _ = strconv.Atoi(os.Args[i+1])
			i++
		case "-cap":
			capN, _ = strconv.Atoi(os.Args[i+1])
			i++
		case "-base":
			base, _ = strconv.ParseInt(os.Args[i+1], 10, 64)
			i++
		case "-rounds":
			rounds, _ = strconv.Atoi(os.Args[i+1])
			i++
		case "-o":
			out = os.Args[i+1]
			i++
		}
	}
	res.L, res.Cap, res.ByKind = L, capN, map[string]int{}
	res.Base = base
	winHi = L + 3
	if base+int64(L)+3 > 2147483647 {
		winHi = L + 1
	}
	outPath = out
	go watchdog(20 * time.Second)
	top := int32(L + 1)

	// ---- phase 1: BFS under AddRange until no new structural state appears
	add(recipe{kind: 'n'}, 0, 0, L)
	for head := 0; head < len(states) && len(states) < capN; head++ {
		st := states[head]
		for b := int32(0); b <= top; b++ {
			for e := b; e <= top; e++ {
				res.Transitions++
				add(recipe{kind: 'a', p1: head, b: b, e: e}, st.model|rangeMask(b, e), st.depth+1, L)
			}
		}
	}
	res.AddStates = len(states)
	fmt.Fprintf(os.Stderr, "setmc: AddRange closure: %d states\n", len(states))

	// ---- phase 2: extend the closure with Complement / Copy / Union results, and keep applying AddRange
	done := map[string]bool{}
	for round := 0; round < rounds && len(states) < capN; round++ {
		fmt.Fprintf(os.Stderr, "setmc: round %d: %d states\n", round, len(states))
		before := len(states)
		n := len(states)
		for i := 0; i < n && len(states) < capN; i++ {
			st := states[i]
			if done["c"+st.key] {
				continue
			}
			done["c"+st.key] = true
			for _, lim := range []int32{int32(L - 1), int32(L), int32(L + 1)} {
				res.Transitions++
				add(recipe{kind: 'c', p1: i, b: lim}, complementModel(st.model, lim), st.depth+1, L)
			}
			res.Transitions++
			add(recipe{kind: 'y', p1: i}, st.model, st.depth+1, L)
		}
		// unions of pairs (results are new states only when the structure is new)
		for i := 0; i < n && len(states) < capN; i++ {
			for j := 0; j < n && len(states) < capN; j++ {
				k := fmt.Sprintf("u%d,%d", i, j)
				if done[k] {
					continue
				}
				done[k] = true
				res.Transitions++
				add(recipe{kind: 'u', p1: i, p2: j}, states[i].model|states[j].model, max(states[i].depth, states[j].depth)+1, L)
			}
		}
		// AddRange from the new states
		for head := before; head < len(states) && len(states) < capN; head++ {
			st := states[head]
			for b := int32(0); b <= top; b++ {
				for e := b; e <= top; e++ {
					res.Transitions++
					add(recipe{kind: 'a', p1: head, b: b, e: e}, st.model|rangeMask(b, e), st.depth+1, L)
				}
			}
		}
		if len(states) == before {
			res.Fixpoint = true
			break
		}
	}

	// ---- queries are pure: a lookup before an insertion must not change what lookups answer after it,
	// whatever the order of the lookups (every state x every earlier query x every AddRange x the
	// later queries in descending order; the per-state check above asks in ascending order)
	for _, st := range states {
		enter(func() string { return "Has, AddRange, Has on " + st.key + " (= " + recipeString(st) + ")" })
		for q1 := 0; q1 <= winHi; q1++ {
			for b := int32(0); b <= top; b++ {
				for e := b; e <= top; e++ {
					res.Checks++
					want := st.model | rangeMask(b, e)
					var got uint64
					pan := protect(func() {
						s := clone(st.live)
						s.Has(val(int32(q1)))
						s.AddRange(val(b), val(e))
						for x := winHi; x >= 0; x-- {
							if s.Has(val(int32(x))) {
								got |= 1 << uint(x)
							}
						}
					})
					if pan != "" {
						report("Has-AddRange-Has-panic", st, nil, "no panic", fmt.Sprintf("Has(%d); AddRange(%d,%d); Has(..): %s", q1, b, e, pan))
					} else if got != want&(1<<uint(winHi+1)-1) {
						report("Has-after-earlier-query", st, nil, modelStr(want&(1<<uint(winHi+1)-1)), fmt.Sprintf("Has(%d); AddRange(%d,%d); then Has for %d..0 answers %s", q1, b, e, winHi, modelStr(got)))
					}
				}
			}
		}
	}
	leave()

	// ---- per-state Complement oracle and pairwise oracles over all reached states
	lim := 4 * (L + 4)
	for _, st := range states {
		if strings.Count(st.key, "[") >= 2 {
			res.Nontrivial++
		}
		enter(func() string { return "Complement on " + st.key + " (= " + recipeString(st) + ")" })
		for _, l := range []int32{int32(L - 1), int32(L), int32(L + 1)} {
			res.Checks++
			var c *set.Set
			if pan := protect(func() { c = st.live.Complement(val(l)) }); pan != "" {
				report("Complement-panic", st, nil, "no panic", fmt.Sprintf("Complement(%d): %s", l, pan))
				continue
			}
			want := complementModel(st.model, l)
			ck, ok := key(c, lim)
			kind := "Complement"
			if st.model&^(rangeMask(0, l)|lowBit) != 0 {
				kind = "Complement-with-elements-beyond-limit"
			}
			if !ok {
				report(kind, st, nil, modelStr(want), fmt.Sprintf("Complement(%d) = corrupt structure %s", l, ck))
			} else if e, pan := extension(c, L+3); pan != "" || e != want {
				report(kind, st, nil, fmt.Sprintf("Complement(%d) = %s", l, modelStr(want)), fmt.Sprintf("%s %s %s", ck, modelStr(e), pan))
			}
			if k2, _ := key(st.live, lim); k2 != st.key {
				report("Complement-mutates-operand", st, nil, st.key, k2)
				st.live, _ = build(st.rec)
			}
		}
	}
	leave()
	for _, a := range states {
		for _, b := range states {
			res.Pairs++
			enter(func() string {
				return "Union/Intersects/Equal of " + a.key + " (= " + recipeString(a) + ") and " + b.key + " (= " + recipeString(b) + ")"
			})
			// Union
			var u *set.Set
			if pan := protect(func() { u = a.live.Union(b.live) }); pan != "" {
				report("Union-panic", a, b, "no panic", pan)
			} else {
				uk, ok := key(u, lim)
				if e, pan := extension(u, L+3); !ok || pan != "" || e != a.model|b.model {
					report("Union", a, b, modelStr(a.model|b.model), uk+" "+modelStr(e)+" "+pan)
				}
			}
			// Intersects
			var x bool
			if pan := protect(func() { x = a.live.Intersects(b.live) }); pan != "" {
				report("Intersects-panic", a, b, "no panic", pan)
			} else if x != (a.model&b.model != 0) {
				report("Intersects", a, b, strconv.FormatBool(a.model&b.model != 0), strconv.FormatBool(x))
			}
			// Equal
			var q bool
			if pan := protect(func() { q = a.live.Equal(b.live) }); pan != "" {
				report("Equal-panic", a, b, "no panic", pan)
			} else if q != (a.model == b.model) {
				report("Equal", a, b, strconv.FormatBool(a.model == b.model), strconv.FormatBool(q))
			}
			if ka, _ := key(a.live, lim); ka != a.key {
				report("binary-op-mutates-receiver", a, b, a.key, ka)
				a.live, _ = build(a.rec)
			}
			if kb, _ := key(b.live, lim); kb != b.key {
				report("binary-op-mutates-argument", a, b, b.key, kb)
				b.live, _ = build(b.rec)
			}
		}
	}
	leave()
	res.Checks += 3 * res.Pairs
	res.States = len(states)
	for i, st := range states {
		if i%(len(states)/6+1) == 0 && len(res.Samples) < 8 {
			res.Samples = append(res.Samples, fmt.Sprintf("state %s = %s via %s", st.key, modelStr(st.model), recipeString(st)))
		}
	}
	res.WallS = time.Since(start).Seconds()
	b, _ := json.MarshalIndent(&res, "", " ")
	if out != "" {
		if err := os.WriteFile(out, b, 0o644); err != nil {
			fmt.Fprintln(os.Stderr, err)
			os.Exit(2)
		}
	} else {
		fmt.Println(string(b))
	}
}
