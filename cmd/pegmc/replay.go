package main

import (
	"encoding/hex"
	"encoding/json"
	"fmt"
	"os"
	"path/filepath"
	"time"

	"verif/internal/ag"
	"verif/internal/engine"
	"verif/internal/families"
	"verif/internal/spec"
)

// replay re-runs one recorded violation against the repository's current working tree.
// Engine-A cases (a grammar, an option set, an input) are regenerated, compiled and compared
// with the reference interpreter again; for the other engines the recorded case is printed with
// the command that reproduces it.
func replay(dir string) int {
	b, err := os.ReadFile(filepath.Join(dir, "case.json"))
	if err != nil {
		fmt.Fprintln(os.Stderr, err)
		return 2
	}
	if sum, err := os.ReadFile(filepath.Join(dir, "summary.txt")); err == nil {
		fmt.Printf("recorded: %s\n", sum)
	}
	var m spec.Mismatch
	if err := json.Unmarshal(b, &m); err != nil || m.GJSON == "" {
		fmt.Printf("%s\n", b)
		fmt.Println("this case is replayed by re-running its check (pegmc check <property>): the failing configuration / schedule / state is the one shown above")
		return 0
	}
	var g ag.Grammar
	if err := json.Unmarshal([]byte(m.GJSON), &g); err != nil {
		fmt.Fprintln(os.Stderr, err)
		return 2
	}
	raw, _ := hex.DecodeString(m.RawIn)
	text := ag.Render(&g, ag.RenderOpts{Package: "g"})
	_ = os.WriteFile(filepath.Join(dir, "grammar.peg"), []byte(text), 0o644)
	_ = os.WriteFile(filepath.Join(dir, "input.bin"), raw, 0o644)
	fmt.Printf("grammar written to %s/grammar.peg, input (%d bytes) to input.bin\n", dir, len(raw))
	e, err := engine.NewEngine()
	if err != nil {
		fmt.Fprintln(os.Stderr, err)
		return 2
	}
	c := &families.Case{Family: "replay", G: &g, Hex: true, Extra: []string{hex.EncodeToString(raw)}, MaxLen: 0, Flags: []bool{false, true}, Variants: spec.AllVariants, Mode: spec.ModeBehaviour, Print: true}
	res, err := e.RunSuite("replay", "quick", []*families.Case{c}, nil, time.Time{})
	if err != nil {
		fmt.Fprintln(os.Stderr, err)
		return 2
	}
	n := 0
	for _, u := range res.Unknown {
		fmt.Printf("STILL FAILING property=%s %s [%s] entry=%q input=%s nomemo=%v: want %s, got %s\n", u.Prop, u.Kind, u.Variant, u.Entry, u.Input, u.NoMemo, u.Want, u.Got)
		n++
	}
	if n == 0 {
		fmt.Println("the case passes on the current tree")
		return 0
	}
	return 1
}
