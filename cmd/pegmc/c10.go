package main

import (
	"fmt"
	"os"
	"path/filepath"
	"regexp"
	"runtime"
	"sort"
	"strings"
	"sync"

	"verif/internal/ag"
	"verif/internal/engine"
	"verif/internal/families"
	"verif/internal/front"
	"verif/internal/reader"
	"verif/internal/ri"
	"verif/internal/runner"
	"verif/internal/spec"
)

// pegSyntax returns the abstract grammar of the normative syntax: /repo/peg.peg read by the
// independent reader (actions ignored).
func pegSyntax() (*ag.Grammar, error) {
	b, err := os.ReadFile(filepath.Join(engine.RepoDir, "peg.peg"))
	if err != nil {
		return nil, err
	}
	f, err := reader.Parse(string(b))
	if err != nil {
		return nil, fmt.Errorf("the independent reader cannot read peg.peg: %v", err)
	}
	f.Grammar.Number()
	return f.Grammar, nil
}

// meaningDiff compares two abstract grammars semantically: same rule names in order, and for
// every rule the reference interpreter gives the same verdict, consumed prefix and tokens on all
// inputs up to length 3 over the boundary alphabet of both grammars.
func meaningDiff(doc, impl *ag.Grammar) string {
	if len(doc.Rules) != len(impl.Rules) {
		return fmt.Sprintf("documented meaning has %d rules, the tree has %d", len(doc.Rules), len(impl.Rules))
	}
	for i := range doc.Rules {
		if doc.Rules[i].Name != impl.Rules[i].Name {
			return fmt.Sprintf("rule %d is %s in the text, %s in the tree", i, doc.Rules[i].Name, impl.Rules[i].Name)
		}
	}
	if a, b := fmt.Sprint(front.Codes(doc)), fmt.Sprint(front.Codes(impl)); a != b {
		return fmt.Sprintf("code blocks differ: text has %s, tree has %s", a, b)
	}
	both := &ag.Grammar{Rules: append(append([]ag.Rule{}, doc.Rules...), impl.Rules...)}
	var sigma []string
	for _, c := range ag.Alphabet(both, 9, '~') {
		sigma = append(sigma, string(c))
	}
	d, m := doc.Clone(), impl.Clone()
	d.Number()
	m.Number()
	if ok, _ := ag.Analyze(d).WellFormed(); !ok {
		// reachability does not matter here; only evaluate when the interpreter is defined
		an := ag.Analyze(d)
		if an.BadRepetition() || len(an.LeftRecursive()) > 0 || len(an.Undefined()) > 0 {
			return ""
		}
	}
	ri1, ri2 := ri.New(d), ri.New(m)
	for _, in := range runner.Inputs(sigma, 3, nil) {
		w := []rune(in)
		for _, r := range d.Rules {
			a, b := ri1.Parse(r.Name, w), ri2.Parse(r.Name, w)
			if a.Abort != "" || b.Abort != "" {
				if a.Abort != b.Abort {
					return fmt.Sprintf("rule %s on %q: documented meaning evaluates (%s), tree meaning does not (%s)", r.Name, in, a.Abort, b.Abort)
				}
				continue
			}
			if a.OK != b.OK || (a.OK && (a.End != b.End || fmt.Sprint(a.Toks) != fmt.Sprint(b.Toks))) {
				return fmt.Sprintf("rule %s on input %q: documented meaning gives ok=%v end=%d %v, the tree built by the front end gives ok=%v end=%d %v", r.Name, in, a.OK, a.End, a.Toks, b.OK, b.End, b.Toks)
			}
		}
	}
	return ""
}

func c10Check(prop, tier string) (*Outcome, error) {
	fs, known, err := loadKnown()
	if err != nil {
		return nil, err
	}
	e, err := engine.NewEngine()
	if err != nil {
		return nil, err
	}
	syntax, err := pegSyntax()
	if err != nil {
		return nil, err
	}
	maxVar := 40
	if tier == "thorough" {
		maxVar = 0
	}
	t1, seedOf := families.T1(maxVar)
	t2 := families.T2(tier == "thorough")
	texts := append(append([]families.TextCase{}, t1...), t2...)
	reqs := make([]engine.GenReq, len(texts))
	for i, t := range texts {
		reqs[i] = engine.GenReq{ID: t.ID, Text: t.Text, WantTree: true, NoGen: !strings.Contains(t.Text, "import")}
	}
	resps := e.Pool.Generate(reqs)

	out := &Outcome{Level: "exploration", Coverage: map[string]any{}, Exhaustive: true}
	type vio struct {
		id, sum string
		payload any
	}
	var mu sync.Mutex
	var vios []vio
	knownHit := map[string]int{}
	counts := map[string]int{}
	var samples []string
	report := func(t families.TextCase, kind, want, got string) {
		id := spec.CaseID("C10", kind, t.Text, "", "", "", false, false, "")
		mu.Lock()
		defer mu.Unlock()
		if f, ok := known[id]; ok {
			knownHit[f]++
			return
		}
		vios = append(vios, vio{id, fmt.Sprintf("%s: text %s (%s): want %s, got %s", kind, clipS(fmt.Sprintf("%q", t.Text), 260), t.ID, want, clipS(got, 400)),
			map[string]any{"id": t.ID, "text": t.Text, "kind": kind, "want": want, "got": got}})
	}
	// per-seed tree dumps (for spelling equivalence)
	seedDump := map[string]string{}
	for i, t := range texts {
		if t.Family == "T1" && seedOf[t.Text] == t.Text {
			seedDump[t.Text] = treeWithoutLayout(resps[i].Tree)
		}
	}
	var wg sync.WaitGroup
	next := make(chan int)
	for w := 0; w < runtime.NumCPU(); w++ {
		wg.Add(1)
		go func() {
			defer wg.Done()
			interp := ri.New(syntax)
			interp.MaxSteps = 3000000
			for i := range next {
				t := texts[i]
				r := &resps[i]
				cnt := func(k string) { mu.Lock(); counts[k]++; mu.Unlock() }
				cnt("texts")
				// ---- never a crash
				if r.Crash != "" || r.ParsePanic != "" || r.ExecPanic != "" || r.Panic != "" {
					report(t, "crash", "accepted or reported as an error", r.FailSummary())
					continue
				}
				accepted := r.ParseErr == ""
				// ---- oracle 2: accept / reject as the normative syntax (peg.peg) says
				ref := interp.Parse(syntax.Rules[0].Name, []rune(t.Text))
				if ref.Abort != "" {
					cnt("normative-syntax-evaluation-aborted")
				} else {
					cnt("accept-reject-decided")
					if ref.OK != accepted {
						report(t, "accept-reject", fmt.Sprintf("accepted=%v (peg.peg evaluated by the reference interpreter)", ref.OK), fmt.Sprintf("accepted=%v %s", accepted, firstLineOf(r.ParseErr)))
					}
				}
				rf, rerr := reader.Parse(t.Text)
				if t.Family == "T1" && rerr != nil {
					report(t, "harness", "the independent reader accepts its own corpus", rerr.Error())
					continue
				}
				if rerr == nil && !accepted {
					report(t, "documented-syntax-rejected", "accepted (the text is a grammar in the documented syntax)", firstLineOf(strings.TrimSpace(r.ParseErr)))
					continue
				}
				if !accepted {
					cnt("rejected")
					continue
				}
				cnt("accepted")
				// ---- oracle 3: builder sanity
				roots, derr := front.ParseDump(r.Tree)
				if derr != nil {
					report(t, "tree", "a rule tree", derr.Error())
					continue
				}
				tf, shape := front.ToFile(roots)
				if len(shape) > 0 {
					report(t, "tree-shape", "package, imports, parser declaration, one rule with one expression per definition", strings.Join(shape, "; "))
					continue
				}
				if rerr != nil {
					// accepted by the front end although the independent reader of the documented syntax
					// rejects it: "text that is not a grammar is reported as an error"
					cnt("accepted-undocumented")
					report(t, "undocumented-text-accepted", "a syntax error (the independent reader of the documented syntax says: "+rerr.Error()+")", "accepted, with the rules "+ag.Show(tf.Grammar))
					continue
				}
				// ---- imports keep their path and alias all the way into the generated file
				if len(rf.Imports) > 0 && r.Out != "" {
					cnt("generated-imports-checked")
					have := map[string]bool{}
					for _, m := range importLineRe.FindAllStringSubmatch(r.Out, -1) {
						have[m[1]+"|"+m[2]] = true
					}
					for _, im := range rf.Imports {
						if !have[im.Alias+"|"+im.Path] {
							report(t, "generated-imports", fmt.Sprintf("import %s %q in the generated file", im.Alias, im.Path), "missing (the file imports "+fmt.Sprint(importLineRe.FindAllString(r.Out, -1))+")")
						}
					}
				}
				// ---- oracle 1: meaning
				if rf.Package != tf.Package || rf.Struct != tf.Struct || strings.TrimSpace(rf.State) != strings.TrimSpace(tf.State) {
					report(t, "declarations", fmt.Sprintf("package %s type %s {%s}", rf.Package, rf.Struct, rf.State), fmt.Sprintf("package %s type %s {%s}", tf.Package, tf.Struct, tf.State))
				}
				if fmt.Sprint(rf.Imports) != fmt.Sprint(tf.Imports) {
					report(t, "imports", fmt.Sprint(rf.Imports), fmt.Sprint(tf.Imports))
				}
				if len(rf.Grey) > 0 {
					cnt("grey-zone-not-compared")
				} else {
					cnt("meaning-compared")
					if d := meaningDiff(rf.Grammar, tf.Grammar); d != "" {
						report(t, "meaning", "the documented denotation", d)
					}
					mu.Lock()
					if len(samples) < 6 && i%97 == 3 {
						samples = append(samples, fmt.Sprintf("%q denotes %s; the front end's tree has the same meaning on all inputs <=3 over its boundary alphabet", clipS(t.Text, 120), ag.Show(rf.Grammar)))
					}
					mu.Unlock()
				}
				// ---- spelling variants build the same tree as their seed
				if seed, ok := seedOf[t.Text]; ok && seed != t.Text {
					cnt("spelling-variants")
					if sd := seedDump[seed]; sd != "" && treeWithoutLayout(r.Tree) != sd {
						report(t, "spelling", "the same rule tree as the seed text", "a different tree")
					}
				}
			}
		}()
	}
	for i := range texts {
		next <- i
	}
	close(next)
	wg.Wait()

	sort.Slice(vios, func(i, j int) bool { return vios[i].sum < vios[j].sum })
	perKind := map[string]int{}
	for _, v := range vios {
		kind := v.sum[:strings.Index(v.sum, ":")]
		perKind[kind]++
		if perKind[kind] <= 8 && len(out.Violations) < 200 {
			out.Violations = append(out.Violations, Violation{ID: v.id, Summary: v.sum, Payload: v.payload})
		}
	}
	out.ViolationN = len(vios)
	for _, f := range fs {
		if n := knownHit[f.Property+"/"+f.ID]; n > 0 && !f.Fixed {
			out.Known = append(out.Known, fmt.Sprintf("id=%s pinned_cases_failing=%d what=%q", f.ID, n, f.What))
		}
	}
	if len(samples) == 0 {
		samples = []string{"(none)"}
	}
	out.Coverage["evaluations"] = counts["texts"]
	out.Coverage["distinct_nontrivial"] = counts["meaning-compared"] + counts["rejected"]
	out.Coverage["samples"] = samples
	out.Coverage["counts"] = counts
	out.Coverage["violations_by_kind"] = perKind
	out.Coverage["corpus"] = map[string]int{"T1_spelling_texts": len(t1), "T2_edit_texts": len(t2)}
	out.Coverage["rule"] = "T1: one seed per documented construct (every escape in '', \"\" and [], classes, negation, case-insensitive forms, every operator and precedence shape, code blocks, imports, arrows, comments) and every insertion of white space / comments at every token boundary; T2: every prefix and every single-character deletion / insertion / substitution of seed grammars. Per text: (1) an independent hand-written reader gives the documented denotation, the front end's tree is translated node for node, and both are compared by the reference interpreter on all inputs <=3 over the boundary alphabet; (2) the front end accepts exactly the texts that peg.peg, evaluated by the reference interpreter, matches; (3) no panic, and the tree has the documented top-level shape. non-trivial = meanings compared or text rejected"
	out.Assumptions = []string{"internal/reader is written from docs/peg-file-syntax.md and the lexical rules of peg.peg; grey zones (upper-case escape letters, case-insensitive non-ASCII, mixed-case ranges in [[ ]], reversed ranges, empty literals/classes) are not compared", "meanings are compared on inputs up to 3 symbols"}
	return out, nil
}

var importLineRe = regexp.MustCompile(`(?m)^\t(?:(\w+) )?"([^"]+)"$`)

// treeWithoutLayout drops Space and Comment nodes (spelling variants add those).
func treeWithoutLayout(dump string) string {
	var keep []string
	for _, ln := range strings.Split(dump, "\n") {
		t := strings.TrimLeft(ln, " ")
		if strings.HasPrefix(t, "Space ") || strings.HasPrefix(t, "Comment ") {
			continue
		}
		keep = append(keep, ln)
	}
	return strings.Join(keep, "\n")
}

func init() { checks["C10"] = c10Check }
