package main

import (
	"verif/internal/families"
	"verif/internal/spec"
)

// suites maps a suite name to its case enumeration per tier.
var suites = map[string]func(tier string) []*families.Case{
	"beh":  behSuite,
	"f2":   f2Suite,
	"hist": histSuite,
	"f11":  func(tier string) []*families.Case { return families.F11(5, 5, []string{"", "s", "is"}) },
	"f13":  func(tier string) []*families.Case { return families.F13(4, []string{""}, 24) },
	"f11q": func(tier string) []*families.Case {
		return families.WithSentences(families.F11(4, 4, []string{"", "s"}), 6, 4, 12)
	},
	"f5q": func(tier string) []*families.Case {
		return families.WithSentences(families.F5(4, []string{"", "is"}), 5, 4, 10)
	},
	"f1q": func(tier string) []*families.Case {
		return families.F1(1, 3, 3, []string{"", "i", "s", "is", "n", "nis"})
	},
	"f12": func(tier string) []*families.Case { return families.F12(3, []string{"", "i", "n"}) },
	"f2d": func(tier string) []*families.Case { return families.F2D(3, 8, 3, []string{"", "s", "is"}) },
	"f17": func(tier string) []*families.Case {
		return append(families.F17(4, []string{"", "is", "n", "nis"}), families.F18(6, []string{"", "is"})...)
	},
	"f23":  func(tier string) []*families.Case { return families.F23([]string{"", "s", "is"}) },
	"f22":  func(tier string) []*families.Case { return families.F22([]string{"", "is"}, tier == "thorough") },
	"f21":  func(tier string) []*families.Case { return families.F21(3, []string{"", "s", "is", "ns"}) },
	"f20":  func(tier string) []*families.Case { return families.F20(3, []string{"", "is"}) },
	"f4":   func(tier string) []*families.Case { return families.F4(3, []string{"", "s", "n"}) },
	"f19":  func(tier string) []*families.Case { return families.F19(2, []string{"", "s"}) },
	"f4l":  func(tier string) []*families.Case { return families.F4L(2, []string{"", "s"}) },
	"f2d2": func(tier string) []*families.Case { return families.F2D(2, 15, 4, []string{"", "s", "is", "ns"}) },
	"f16":  func(tier string) []*families.Case { return families.F16(4, []string{"", "i", "is", "n", "ni"}) },
	"nc":   func(tier string) []*families.Case { return families.NestedCaptures(5, []string{"", "n", "nis"}) },
	"f7":   func(tier string) []*families.Case { return families.F7(3, 3, []string{"", "is"}) },
}

// histSuite: operation histories on one parser instance (C12).
func histSuite(tier string) []*families.Case {
	pick := func(cs []*families.Case, n int) []*families.Case {
		if len(cs) <= n {
			return cs
		}
		var out []*families.Case
		for i := 0; i < n; i++ {
			out = append(out, cs[i*len(cs)/n])
		}
		return out
	}
	us := []string{"uint16", "uint32", "uint64", "uint"}
	var cs []*families.Case
	if tier == "thorough" {
		src := append(pick(families.F5(0, nil), 24), pick(families.F6(4, 0, nil), 16)...)
		src = append(src, pick(families.F3(0, nil), 12)...)
		src = append(src, families.F18(0, nil)...) // multi-line text: error positions after a Reset
		cs = append(cs, families.Hist(src, 4, 7, []int{-1, 1, 3, 1 << 15}, us, []string{"", "is"})...)
		cs = append(cs, families.LongInputs([]string{"", "is"})...)
	} else {
		src := append(pick(families.F5(0, nil), 10), pick(families.F6(4, 0, nil), 6)...)
		src = append(src, pick(families.F3(0, nil), 4)...)
		src = append(src, families.F18(0, nil)...) // multi-line text: error positions after a Reset
		cs = append(cs, families.Hist(src, 3, 6, []int{-1, 1, 3, 1 << 15}, us, []string{"", "is"})...)
		cs = append(cs, families.LongInputs([]string{""})...)
	}
	return cs
}

// f2Suite: development suite for the -switch optimiser (the F2 part of the thorough tier).
func f2Suite(tier string) []*families.Case {
	var cs []*families.Case
	cs = append(cs, families.F2(3, 22, []string{"plain"}, false, 3, []string{"", "s", "is"})...)
	cs = append(cs, families.F2(3, 8, []string{"plain", "star", "after", "peek", "outer"}, true, 3, []string{"", "s", "is", "ns"})...)
	if tier == "thorough" {
		cs = append(cs, families.F2(4, 8, []string{"plain"}, false, 3, []string{"", "s"})...)
	}
	return cs
}

func behSuite(tier string) []*families.Case {
	var cs []*families.Case
	ast := spec.ASTVariants
	if tier == "thorough" {
		cs = append(cs, families.F1(1, 4, 4, spec.AllVariants)...)
		cs = append(cs, families.F1(5, 5, 3, []string{""})...)
		cs = append(cs, families.F2(3, 22, []string{"plain"}, false, 3, []string{"", "s", "is"})...)
		cs = append(cs, families.F2(3, 8, []string{"plain", "star", "after", "peek", "outer"}, true, 3, []string{"", "s", "is", "ns"})...)
		cs = append(cs, families.F2(4, 8, []string{"plain"}, false, 3, []string{"", "s"})...)
		cs = append(cs, families.F2D(3, 15, 3, []string{"", "s", "is", "ns"})...)
		cs = append(cs, families.F2D(4, 6, 3, []string{"", "s"})...)
		cs = append(cs, families.F3(4, spec.AllVariants)...)
		cs = append(cs, families.F4(3, spec.AllVariants)...)
		cs = append(cs, families.WithSentences(families.F5(4, ast), 6, 8, 14)...)
		cs = append(cs, families.F6(4, 4, []string{"", "is", "n", "ni", "ns"})...)
		cs = append(cs, families.F7(3, 3, []string{"", "is", "n"})...)
		cs = append(cs, families.F8(3, 3, []string{"", "i", "s", "n", "ns"})...)
		cs = append(cs, families.F10(4, 4, []string{"", "i"})...)
		cs = append(cs, families.WithSentences(families.F11(6, 5, []string{"", "s", "is"}), 7, 6, 14)...)
		cs = append(cs, families.F12(4, spec.AllVariants)...)
		cs = append(cs, families.F13(4, []string{"", "is"}, 0)...)
		cs = append(cs, families.F14(4, spec.AllVariants)...)
		cs = append(cs, families.F15(3, spec.AllVariants)...)
		cs = append(cs, families.NestedCaptures(5, spec.AllVariants)...)
		cs = append(cs, families.F16(5, spec.AllVariants)...)
		cs = append(cs, families.F4L(2, []string{"", "s", "n", "nis"})...)
		cs = append(cs, families.F17(5, spec.AllVariants)...)
		cs = append(cs, families.F19(2, []string{"", "s", "is", "ns"})...)
		cs = append(cs, families.F20(4, []string{"", "is"})...)
		cs = append(cs, families.F21(4, spec.AllVariants)...)
		cs = append(cs, families.F22([]string{"", "is", "n"}, true)...)
		cs = append(cs, families.F23([]string{"", "s", "is", "ns"})...)
		cs = append(cs, families.F18(7, []string{"", "is"})...)
		h := append(families.F1(1, 3, 0, nil), families.F4(0, nil)...)
		h = append(h, families.F7(2, 0, nil)...)
		cs = append(cs, families.Hostile(h, 4, []string{"", "is", "n"})...)
	} else {
		cs = append(cs, families.F1(1, 3, 3, []string{"", "i", "s", "is", "n", "nis"})...)
		cs = append(cs, families.F2(3, 8, []string{"plain"}, false, 3, []string{"", "is"})...)
		cs = append(cs, families.F2D(3, 8, 3, []string{"", "s"})...)
		cs = append(cs, families.F2D(2, 15, 4, []string{"", "s", "is", "ns"})...)
		cs = append(cs, families.F3(3, []string{"", "is", "n"})...)
		cs = append(cs, families.F4(3, []string{"", "s", "n"})...)
		cs = append(cs, families.WithSentences(families.F5(4, []string{"", "is"}), 5, 4, 10)...)
		cs = append(cs, families.F6(4, 3, []string{"", "n"})...)
		cs = append(cs, families.F7(2, 3, []string{"", "is"})...)
		cs = append(cs, families.F8(3, 3, []string{"", "n"})...)
		cs = append(cs, families.F10(4, 4, []string{""})...)
		cs = append(cs, families.WithSentences(families.F11(4, 4, []string{"", "s"}), 6, 4, 12)...)
		cs = append(cs, families.F12(3, []string{"", "i", "n"})...)
		cs = append(cs, families.F13(4, []string{""}, 24)...)
		cs = append(cs, families.F14(4, []string{"", "is", "n"})...)
		cs = append(cs, families.F15(3, []string{"", "s"})...)
		cs = append(cs, families.NestedCaptures(5, []string{"", "n", "nis"})...)
		cs = append(cs, families.F16(4, []string{"", "i", "is", "n", "ni"})...)
		cs = append(cs, families.F4L(2, []string{"", "s"})...)
		cs = append(cs, families.F17(4, []string{"", "is", "n", "nis"})...)
		cs = append(cs, families.F19(2, []string{"", "s"})...)
		cs = append(cs, families.F20(3, []string{"", "is"})...)
		cs = append(cs, families.F21(3, []string{"", "s", "is", "ns"})...)
		cs = append(cs, families.F22([]string{"", "is"}, false)...)
		cs = append(cs, families.F23([]string{"", "s", "is"})...)
		cs = append(cs, families.F18(5, []string{"", "is"})...)
		h := append(families.F1(1, 2, 0, nil), families.F4(0, nil)[:40]...)
		cs = append(cs, families.Hostile(h, 3, []string{"", "is"})...)
	}
	return cs
}

func init() {
	behRule := "every grammar of the listed families (all expressions up to the size bound, well-formedness filtered by an independent analysis) x every input string over the grammar's boundary alphabet up to the length bound x every rule as entry point (plus the default entry) x memoisation on/off; each case is evaluated by the reference interpreter and replayed on the parser generated and compiled from /repo's working tree; "
	reg := func(prop string, suites []string, nontrivial string, assumptions ...string) {
		behProps[prop] = propInfo{suites: suites, rule: behRule + "non-trivial: " + nontrivial + "; distinct = distinct (grammar, input, entry, parser variant)", assumptions: append([]string{
			"small-scope hypothesis: expression size, alphabet and input length are bounded as reported",
			"reference interpreter internal/ri (direct PEG semantics, ~300 lines) is the oracle; it is self-tested at setup against hand-written expectations",
			"Go toolchain and the go/types static gate are trusted",
		}, assumptions...)}
		checks[prop] = behCheck
	}
	reg("C01", []string{"beh"}, "the reference evaluation backtracked (gave back input or tokens) or iterated a repetition")
	reg("C02", []string{"beh"}, "the optimised variant's generated code differs from the plain parser's")
	reg("C03", []string{"beh"}, "accepted input on which tokens were created and then discarded")
	reg("C04", []string{"beh"}, "accepted input with at least one action in the derivation and at least one action reached outside it")
	reg("C05", []string{"beh"}, "accepted input whose derivation tree has at least two non-empty nodes")
	reg("C06", []string{"beh", "hist"}, "some (rule, offset) pair is entered more than once by the naive evaluation (behaviour suite); a step of a history whose result differs from a fresh parser's only with memoisation (history suite)")
	reg("C07", []string{"beh"}, "every case (verdict and eager trace are compared on all of them)")
	reg("C08", []string{"static", "beh"}, "the option sets yield at least two different outputs for the grammar (static suite) / the variant's code differs from the plain parser's (behaviour suite, which also compiles the file)")
	reg("C11", []string{"beh", "hist"}, "rejected input with a non-empty furthest token (history suite: an error token longer than 32 runes)")
	reg("C12", []string{"hist"}, "a step executed in a configuration other than (uint32, Size unset), or inside a history")
	reg("C13", []string{"beh", "hist", "shipped"}, "input over the hostile byte alphabet (invalid UTF-8, NUL, non-BMP, U+10FFFF)")
}
