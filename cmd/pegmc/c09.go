package main

import (
	"bytes"
	"encoding/json"
	"fmt"
	"go/ast"
	"go/parser"
	"go/token"
	"os"
	"os/exec"
	"path/filepath"
	"sort"
	"strings"
	"sync"

	"verif/internal/engine"
	"verif/internal/spec"
)

const schedImport = "github.com/pointlander/peg/verifsched"

// instrumentSource inserts a scheduling point before every statement of every block and case
// clause (textually, so comments and directives survive), redirects the sync import to the
// scheduler's shim and turns go statements into scheduler threads. It also counts constructs
// the scheduler cannot control.
var mapSeams int

// mapNames collects identifiers that are syntactically maps in a file: struct fields and
// variables declared with a map type, make(map...) or a map literal.
func mapNames(f *ast.File) map[string]bool {
	maps := map[string]bool{}
	ast.Inspect(f, func(nd ast.Node) bool {
		switch x := nd.(type) {
		case *ast.Field:
			if _, ok := x.Type.(*ast.MapType); ok {
				for _, nm := range x.Names {
					maps[nm.Name] = true
				}
			}
		case *ast.ValueSpec:
			if _, ok := x.Type.(*ast.MapType); ok {
				for _, nm := range x.Names {
					maps[nm.Name] = true
				}
			}
		case *ast.AssignStmt:
			for i, r := range x.Rhs {
				isMap := false
				if call, ok := r.(*ast.CallExpr); ok && len(call.Args) > 0 {
					if id, ok := call.Fun.(*ast.Ident); ok && id.Name == "make" {
						_, isMap = call.Args[0].(*ast.MapType)
					}
				}
				if cl, ok := r.(*ast.CompositeLit); ok {
					_, isMap = cl.Type.(*ast.MapType)
				}
				if isMap && i < len(x.Lhs) {
					if l, ok := x.Lhs[i].(*ast.Ident); ok {
						maps[l.Name] = true
					}
				}
			}
		}
		return true
	})
	return maps
}

func isMapExpr(e ast.Expr, maps map[string]bool) bool {
	switch x := e.(type) {
	case *ast.Ident:
		return maps[x.Name]
	case *ast.SelectorExpr:
		return maps[x.Sel.Name]
	}
	return false
}

func instrumentSource(name string, src []byte, firstSite int) (out []byte, sites int, uncontrolled []string, err error) {
	fset := token.NewFileSet()
	f, err := parser.ParseFile(fset, name, src, parser.ParseComments)
	if err != nil {
		return nil, 0, nil, err
	}
	type ins struct {
		off  int
		text string
	}
	var inserts []ins
	type rep struct {
		from, to int
		text     string
	}
	var replaces []rep
	maps := mapNames(f)
	site := firstSite
	addStmts := func(list []ast.Stmt) {
		for _, s := range list {
			switch s.(type) {
			case *ast.EmptyStmt, *ast.CaseClause, *ast.CommClause:
				continue // the clause list of a switch/select body is not a statement list
			}
			inserts = append(inserts, ins{fset.Position(s.Pos()).Offset, fmt.Sprintf("verifsched.Point(%d); ", site)})
			site++
		}
	}
	ast.Inspect(f, func(n ast.Node) bool {
		switch x := n.(type) {
		case *ast.BlockStmt:
			addStmts(x.List)
		case *ast.CaseClause:
			addStmts(x.Body)
		case *ast.CommClause:
			addStmts(x.Body)
			uncontrolled = append(uncontrolled, "select/channel communication at "+fset.Position(x.Pos()).String())
		case *ast.GoStmt:
			// go f(x)  ->  verifsched.Go(func() { f(x) })
			s, e := fset.Position(x.Pos()).Offset, fset.Position(x.Call.Pos()).Offset
			_ = s
			inserts = append(inserts, ins{e, "/*go*/"})
			uncontrolled = append(uncontrolled, "go statement at "+fset.Position(x.Pos()).String())
		case *ast.SendStmt:
			uncontrolled = append(uncontrolled, "channel send at "+fset.Position(x.Pos()).String())
		case *ast.UnaryExpr:
			if x.Op == token.ARROW {
				uncontrolled = append(uncontrolled, "channel receive at "+fset.Position(x.Pos()).String())
			}
		case *ast.RangeStmt:
			// map iteration order is nondeterminism the scheduler does not own: turn `range m` over a
			// (syntactically recognisable) map into a range over verifsched.Keys(m), whose order the
			// harness chooses
			if isMapExpr(x.X, maps) {
				xs, xe := fset.Position(x.X.Pos()).Offset, fset.Position(x.X.End()).Offset
				expr := string(src[xs:xe])
				if x.Value == nil && x.Key != nil {
					// for k := range m   ->   for _, k := range verifsched.Keys(m)
					ks := fset.Position(x.Key.Pos()).Offset
					inserts = append(inserts, ins{ks, "_, "})
					inserts = append(inserts, ins{xs, "verifsched.Keys("}, ins{xe, ")"})
					mapSeams++
				} else if x.Key != nil && x.Value != nil {
					// for k, v := range m  ->  for _, k := range verifsched.Keys(m) { v := m[k]; ...
					ks, ke := fset.Position(x.Key.Pos()).Offset, fset.Position(x.Value.End()).Offset
					keyName := string(src[ks:fset.Position(x.Key.End()).Offset])
					valName := string(src[fset.Position(x.Value.Pos()).Offset:ke])
					replaces = append(replaces, rep{ks, ke, "_, " + keyName})
					inserts = append(inserts, ins{xs, "verifsched.Keys("}, ins{xe, ")"})
					inserts = append(inserts, ins{fset.Position(x.Body.Lbrace).Offset + 1, " " + valName + " := " + expr + "[" + keyName + "]; _ = " + valName + "; "})
					mapSeams++
				}
			}
		}
		return true
	})
	_ = replaces
	skip := map[int]int{} // offset -> end of a replaced span
	for _, r := range replaces {
		inserts = append(inserts, ins{r.from, r.text})
		skip[r.from] = r.to
	}
	sort.SliceStable(inserts, func(i, j int) bool { return inserts[i].off < inserts[j].off })
	var buf bytes.Buffer
	last := 0
	for _, in := range inserts {
		if in.text == "/*go*/" {
			continue
		}
		if in.off > last {
			buf.Write(src[last:in.off])
			last = in.off
		}
		buf.WriteString(in.text)
		if to, ok := skip[in.off]; ok && to > last {
			last = to
			delete(skip, in.off)
		}
	}
	buf.Write(src[last:])
	text := buf.String()
	// imports: redirect sync, add the scheduler package under its own name
	for _, im := range f.Imports {
		p := strings.Trim(im.Path.Value, `"`)
		if p == "sync" {
			text = strings.Replace(text, "\t\"sync\"\n", "\tsync \""+schedImport+"\"\n", 1)
		}
		if p == "sync/atomic" {
			uncontrolled = append(uncontrolled, "sync/atomic import")
		}
	}
	pkgLine := "package " + f.Name.Name
	i := strings.Index(text, pkgLine)
	if i < 0 {
		return nil, 0, nil, fmt.Errorf("no package clause in %s", name)
	}
	eol := i + len(pkgLine)
	text = text[:eol] + "\n\nimport verifsched \"" + schedImport + "\"\n" + text[eol:]
	return []byte(text), site - firstSite, uncontrolled, nil
}

type c09JobResult struct {
	Name       string           `json:"name"`
	Bound      int              `json:"bound"`
	Schedules  int64            `json:"schedules"`
	Decisions  int64            `json:"decisions"`
	MaxDepth   int              `json:"max_depth"`
	Points     int64            `json:"points"`
	Outcomes   map[string]int64 `json:"outcomes"`
	Violations []string         `json:"violations"`
	Schedules2 []string         `json:"violating_schedules"`
	Capped     bool             `json:"capped"`
	WallS      float64          `json:"wall_s"`
	Warnings   string           `json:"warnings"`
}

type c09Job struct {
	Name   string `json:"name"`
	Text   string `json:"text"`
	Inline bool   `json:"inline"`
	Switch bool   `json:"switch"`
	NoAST  bool   `json:"noast"`
	Strict bool   `json:"strict"`
}

func c09Grammars() []c09Job {
	hdr := "package g\n\ntype P Peg {\n N int\n}\n\n"
	texts := map[string]string{
		// both analyses do real work and emit all three kinds of warnings
		"warnings": hdr + "S <- A B / C 'x'\nA <- A 'a' / 'b'\nB <- 'b' Undef?\nC <- &C 'c' / D\nD <- 'd' S\nUnused <- 'u' Unused2\nUnused2 <- 'v'\n",
		"switch":   hdr + "List <- Item List / Item\nItem <- 'a' { p.N++ } / 'b' / [c-e] 'x' / Str\nStr <- '\"' (!'\"' .)* '\"'\n",
		"clean":    hdr + "E <- T ('+' T { p.N++ })* !.\nT <- F ('*' F)*\nF <- <[0-9]+> { _ = text } / '(' E2 ')'\nE2 <- T ('+' T)*\n",
		"leftrec":  hdr + "S <- X 'x' / Y\nX <- Y? X 'q' / 'r'\nY <- !X 'y' / S 'z'\n",
		// several undefined and several unused rules: the order of the diagnostics must be fixed
		// first sets with members far apart in the code space (the -switch pass enumerates code points)
		"wideswitch": hdr + "S <- [a-c\\0x20000-\\0x20005] 'x' / [0-9\\0xE0001] 'y' / [\\0x10FFF0-\\0x10FFFF\\0x3000-\\0x3002] / 'z' S\n",
		"manywarn": hdr + "S <- U1 / U2 'x' / U3? 'y' / &U4 'z' / U5*\nN1 <- 'a' U6\nN2 <- N3\nN3 <- 'b' U7\nN4 <- N4 'c'\n",
	}
	var names []string
	for k := range texts {
		names = append(names, k)
	}
	sort.Strings(names)
	var out []c09Job
	for _, n := range names {
		out = append(out, c09Job{Name: n, Text: texts[n]}, c09Job{Name: n + " -inline -switch", Text: texts[n], Inline: true, Switch: true})
	}
	// with Strict the diagnostics become the returned error: it must be the same text on every schedule
	for _, n := range []string{"leftrec", "manywarn", "warnings"} {
		out = append(out, c09Job{Name: n + " -strict", Text: texts[n], Strict: true})
	}
	return out
}

func c09Check(prop, tier string) (*Outcome, error) {
	_, known, err := loadKnown()
	if err != nil {
		return nil, err
	}
	root := filepath.Join(engine.WorkDir(), fmt.Sprintf("c09-%d", os.Getpid()))
	_ = os.RemoveAll(root)
	if os.Getenv("VERIF_KEEP") == "" {
		defer os.RemoveAll(root)
	}
	ov := filepath.Join(root, "ov")
	hdir := filepath.Join(root, "h")
	_ = os.MkdirAll(ov, 0o755)
	_ = os.MkdirAll(hdir, 0o755)
	replace := map[string]string{}
	totalSites := 0
	mapSeams = 0
	var uncontrolled []string
	for _, pkg := range []string{"tree", "set"} {
		ents, err := os.ReadDir(filepath.Join(engine.RepoDir, pkg))
		if err != nil {
			return nil, err
		}
		for _, e := range ents {
			n := e.Name()
			if !strings.HasSuffix(n, ".go") || strings.HasSuffix(n, "_test.go") {
				continue
			}
			p := filepath.Join(engine.RepoDir, pkg, n)
			src, err := os.ReadFile(p)
			if err != nil {
				return nil, err
			}
			out, sites, unc, err := instrumentSource(p, src, totalSites)
			if err != nil {
				return nil, fmt.Errorf("cannot instrument %s: %v", p, err)
			}
			totalSites += sites
			uncontrolled = append(uncontrolled, unc...)
			dst := filepath.Join(ov, pkg+"_"+n)
			_ = os.WriteFile(dst, out, 0o644)
			replace[p] = dst
		}
	}
	replace[filepath.Join(engine.RepoDir, "verifsched", "sched.go")] = filepath.Join(engine.VerifDir, "internal/sched/sched.go")
	ovb, _ := json.Marshal(map[string]any{"Replace": replace})
	ovFile := filepath.Join(root, "overlay.json")
	_ = os.WriteFile(ovFile, ovb, 0o644)
	hsrc, err := os.ReadFile(filepath.Join(engine.VerifDir, "internal/c09h/main.go.txt"))
	if err != nil {
		return nil, err
	}
	front, err := os.ReadFile(filepath.Join(engine.RepoDir, "peg.peg.go"))
	if err != nil {
		return nil, err
	}
	_ = os.WriteFile(filepath.Join(hdir, "main.go"), hsrc, 0o644)
	_ = os.WriteFile(filepath.Join(hdir, "peg.peg.go"), front, 0o644)
	rel, _ := filepath.Rel(engine.VerifDir, hdir)
	bin := filepath.Join(root, "c09.bin")
	cmd := exec.Command("go", "build", "-overlay", ovFile, "-o", bin, "./"+filepath.ToSlash(rel))
	cmd.Dir = engine.VerifDir
	cmd.Env = engine.GoEnv()
	if o, err := engine.RunLocked(cmd); err != nil {
		return nil, fmt.Errorf("building the instrumented generator failed:\n%s", clipS(string(o), 3000))
	}

	out := &Outcome{Level: "model_checking", Coverage: map[string]any{}, Exhaustive: true}
	addV := func(kind, name, msg, schedule string) {
		id := spec.CaseID("C09", kind, name, "", "", "", false, false, "")
		if f, ok := known[id]; ok {
			out.Known = append(out.Known, fmt.Sprintf("id=%s %s", f, name))
			return
		}
		out.ViolationN++
		if len(out.Violations) < 30 {
			out.Violations = append(out.Violations, Violation{ID: id, Summary: fmt.Sprintf("%s: %s: %s (schedule %s)", kind, name, clipS(msg, 700), clipS(schedule, 120)), Payload: map[string]any{"scenario": name, "kind": kind, "message": msg, "schedule": schedule}})
		}
	}
	jobs := c09Grammars()
	budgetPerJob := 25
	if tier == "thorough" {
		budgetPerJob = 240
	}
	runHarness := func(mode string, js []c09Job, bound int, maxS int64, shards int) ([]c09JobResult, error) {
		var all [][]c09JobResult
		var mu sync.Mutex
		var wg sync.WaitGroup
		var firstErr error
		for sh := 0; sh < shards; sh++ {
			wg.Add(1)
			go func(sh int) {
				defer wg.Done()
				cfgFile := filepath.Join(root, fmt.Sprintf("cfg-%s-%d-%d.json", mode, bound, sh))
				resFile := filepath.Join(root, fmt.Sprintf("res-%s-%d-%d.json", mode, bound, sh))
				cb, _ := json.Marshal(map[string]any{"jobs": js, "bound": bound, "max_schedules": maxS, "shard": sh, "shards": shards, "mode": mode, "out": resFile, "budget_s": budgetPerJob})
				_ = os.WriteFile(cfgFile, cb, 0o644)
				c := engine.MemLimited(12, bin, cfgFile)
				c.Env = append(os.Environ(), "GOMAXPROCS=1")
				var se bytes.Buffer
				c.Stderr = &se
				if err := c.Run(); err != nil {
					mu.Lock()
					if firstErr == nil {
						firstErr = fmt.Errorf("scheduler harness failed: %v\n%s", err, clipS(se.String(), 1500))
					}
					mu.Unlock()
					return
				}
				var rs []c09JobResult
				b, _ := os.ReadFile(resFile)
				if err := json.Unmarshal(b, &rs); err != nil {
					mu.Lock()
					firstErr = err
					mu.Unlock()
					return
				}
				mu.Lock()
				all = append(all, rs)
				mu.Unlock()
			}(sh)
		}
		wg.Wait()
		if firstErr != nil {
			return nil, firstErr
		}
		// merge shards
		merged := map[string]*c09JobResult{}
		var order []string
		for _, rs := range all {
			for _, r := range rs {
				m := merged[r.Name]
				if m == nil {
					c := r
					c.Outcomes = map[string]int64{}
					c.Schedules, c.Decisions, c.Points, c.Violations, c.Schedules2 = 0, 0, 0, nil, nil
					m = &c
					merged[r.Name] = m
					order = append(order, r.Name)
				}
				m.Schedules += r.Schedules
				m.Decisions += r.Decisions
				m.Points += r.Points
				m.MaxDepth = max(m.MaxDepth, r.MaxDepth)
				m.Capped = m.Capped || r.Capped
				m.WallS = max(m.WallS, r.WallS)
				for k, v := range r.Outcomes {
					m.Outcomes[k] += v
				}
				m.Violations = append(m.Violations, r.Violations...)
				m.Schedules2 = append(m.Schedules2, r.Schedules2...)
			}
		}
		sort.Strings(order)
		var res []c09JobResult
		for _, n := range order {
			res = append(res, *merged[n])
		}
		return res, nil
	}
	var schedules, decisions int64
	var samples []string
	var perJob []any
	collect := func(label string, rs []c09JobResult) {
		for _, r := range rs {
			schedules += r.Schedules
			decisions += r.Decisions
			if r.Capped {
				out.Exhaustive = false
			}
			perJob = append(perJob, map[string]any{"scenario": label + ": " + r.Name, "preemption_bound_completed": r.Bound, "schedules": r.Schedules, "decisions": r.Decisions, "max_decisions_per_schedule": r.MaxDepth, "distinct_outcomes": r.Outcomes, "capped": r.Capped, "wall_s": r.WallS, "warnings_of_default_schedule": clipS(r.Warnings, 300)})
			if len(samples) < 6 {
				samples = append(samples, fmt.Sprintf("%s %s: %d schedules with <= %d preemptions (up to %d decisions each), outcomes %v", label, r.Name, r.Schedules, r.Bound, r.MaxDepth, r.Outcomes))
			}
			for k, v := range r.Violations {
				s := ""
				if k < len(r.Schedules2) {
					s = r.Schedules2[k]
				}
				addV("schedule-dependence", label+": "+r.Name, v, s)
			}
		}
	}
	// S1: interleavings of the analysis goroutines of one Compile
	b1, max1 := 1, int64(60000)
	if tier == "thorough" {
		b1, max1 = 2, 400000
	}
	shards := 8
	if tier == "thorough" {
		shards = 16
	}
	rs, err := runHarness("single", jobs, b1, max1, shards)
	if err != nil {
		return nil, err
	}
	collect("one Compile", rs)
	// S2: two Compiles of independent trees as two threads
	byName := map[string]c09Job{}
	for _, j := range jobs {
		byName[j.Name] = j
	}
	// no -switch here (its rune loops make millions of points); the second and third pair have undefined
	// and unused rules (the generator builds placeholder nodes for those)
	pairs := []c09Job{byName["clean"], byName["switch"], byName["manywarn"], byName["warnings"], byName["warnings"], byName["leftrec"]}
	b2, max2 := 0, int64(2000)
	if tier == "thorough" {
		b2, max2 = 1, 200000
	}
	rs, err = runHarness("pair", pairs, b2, max2, shards)
	if err != nil {
		return nil, err
	}
	collect("two concurrent Compiles", rs)

	// ---- S3 (call-order histories), free-running -race pass and cross-process repeats
	free, err := c09FreeRunning(root, tier, jobs, addV)
	if err != nil {
		return nil, err
	}
	mapRanges := countMapRanges()
	if len(uncontrolled) > 0 || mapRanges > mapSeams {
		out.Exhaustive = false
	}
	out.Coverage["states"] = decisions + schedules
	out.Coverage["transitions"] = decisions
	out.Coverage["traces_validated_against_impl"] = schedules
	out.Coverage["schedules"] = schedules
	out.Coverage["samples"] = samples
	out.Coverage["scenarios"] = perJob
	out.Coverage["statement_level_scheduling_points_inserted"] = totalSites
	out.Coverage["constructs_the_scheduler_cannot_control"] = uncontrolled
	out.Coverage["map_range_loops_in_tree_and_set"] = mapRanges
	out.Coverage["map_range_loops_turned_into_seams"] = mapSeams
	out.Coverage["free_running_and_history_pass"] = free
	out.Coverage["evaluations"] = schedules
	out.Coverage["distinct_nontrivial"] = schedules
	out.Coverage["rule"] = "packages tree and set are instrumented from the working tree at check time (a scheduling point before every statement, sync redirected to a scheduling-aware WaitGroup) and linked with the real front end; stateless DFS with iterative preemption bounding over (S1) the goroutines of one Compile and (S2) two Compiles of independent grammars as two threads; oracle: generated bytes, warnings and error equal those of the default (non-preemptive) schedule; failing schedules are replayed twice. Plus: all call orders of three grammars in one process, the same bodies free-running under -race with GOMAXPROCS 1,2,4,16, and the real binary repeated across GOMAXPROCS values"
	out.Assumptions = []string{"statement-level atomicity; sequential consistency (data races are the business of the separate -race pass)", "goroutines started by the standard library are not controlled"}
	return out, nil
}

// countMapRanges counts `range` loops whose operand is syntactically a map field of Tree
// (Rules, rulesCount, undefined) or a local map: iteration order would be uncontrolled nondeterminism.
func countMapRanges() int {
	n := 0
	for _, pkg := range []string{"tree", "set"} {
		ents, _ := os.ReadDir(filepath.Join(engine.RepoDir, pkg))
		for _, e := range ents {
			if !strings.HasSuffix(e.Name(), ".go") || strings.HasSuffix(e.Name(), "_test.go") {
				continue
			}
			fset := token.NewFileSet()
			f, err := parser.ParseFile(fset, filepath.Join(engine.RepoDir, pkg, e.Name()), nil, 0)
			if err != nil {
				continue
			}
			maps := map[string]bool{}
			ast.Inspect(f, func(nd ast.Node) bool {
				switch x := nd.(type) {
				case *ast.Field:
					if _, ok := x.Type.(*ast.MapType); ok {
						for _, nm := range x.Names {
							maps[nm.Name] = true
						}
					}
				case *ast.AssignStmt:
					for i, r := range x.Rhs {
						if call, ok := r.(*ast.CallExpr); ok && len(call.Args) > 0 {
							if id, ok := call.Fun.(*ast.Ident); ok && id.Name == "make" {
								if _, ok := call.Args[0].(*ast.MapType); ok && i < len(x.Lhs) {
									if l, ok := x.Lhs[i].(*ast.Ident); ok {
										maps[l.Name] = true
									}
								}
							}
						}
						if cl, ok := r.(*ast.CompositeLit); ok {
							if _, ok := cl.Type.(*ast.MapType); ok && i < len(x.Lhs) {
								if l, ok := x.Lhs[i].(*ast.Ident); ok {
									maps[l.Name] = true
								}
							}
						}
					}
				}
				return true
			})
			ast.Inspect(f, func(nd ast.Node) bool {
				if r, ok := nd.(*ast.RangeStmt); ok {
					switch x := r.X.(type) {
					case *ast.Ident:
						if maps[x.Name] {
							n++
						}
					case *ast.SelectorExpr:
						if maps[x.Sel.Name] {
							n++
						}
					}
				}
				return true
			})
		}
	}
	return n
}

func init() { checks["C09"] = c09Check }
