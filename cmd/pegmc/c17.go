package main

import (
	"bytes"
	"encoding/hex"
	"encoding/json"
	"fmt"
	"os"
	"os/exec"
	"path/filepath"
	"regexp"
	"sort"
	"strings"
	"sync"
	"time"

	"verif/internal/engine"
	"verif/internal/families"
	"verif/internal/reader"
	"verif/internal/runner"
	"verif/internal/spec"
)

// exportTree copies the repository's working tree (tracked files as they are on disk, plus
// untracked source files) to a scratch directory outside /repo and /verif.
func exportTree() (string, error) {
	dir, err := os.MkdirTemp("", "pegmc-export-")
	if err != nil {
		return "", err
	}
	cmd := exec.Command("git", "ls-files", "-co", "--exclude-standard", "-z")
	cmd.Dir = engine.RepoDir
	out, err := cmd.Output()
	if err != nil {
		return dir, err
	}
	for _, f := range strings.Split(string(out), "\x00") {
		if f == "" {
			continue
		}
		src := filepath.Join(engine.RepoDir, f)
		st, err := os.Stat(src)
		if err != nil || st.IsDir() {
			continue
		}
		b, err := os.ReadFile(src)
		if err != nil {
			continue
		}
		dst := filepath.Join(dir, f)
		_ = os.MkdirAll(filepath.Dir(dst), 0o755)
		if err := os.WriteFile(dst, b, st.Mode().Perm()); err != nil {
			return dir, err
		}
	}
	return dir, nil
}

type c17vio struct {
	id, sum string
	payload any
}

type c17ctx struct {
	mu       sync.Mutex
	vios     []c17vio
	known    map[string]string
	knownHit map[string]int
	evals    int64
	nontriv  int64
	samples  []string
	notes    map[string]any
}

func (c *c17ctx) report(kind, what, want, got string) {
	id := spec.CaseID("C17", kind, what, "", "", "", false, false, "")
	c.mu.Lock()
	defer c.mu.Unlock()
	if f, ok := c.known[id]; ok {
		c.knownHit[f]++
		return
	}
	c.vios = append(c.vios, c17vio{id, fmt.Sprintf("%s: %s: want %s, got %s", kind, clipS(what, 300), want, clipS(got, 400)), map[string]any{"kind": kind, "what": what, "want": want, "got": got}})
}

// ---- part 1: the bootstrap chain

func (c *c17ctx) chain() error {
	dir, err := exportTree()
	defer os.RemoveAll(dir)
	if err != nil {
		return err
	}
	want, err := os.ReadFile(filepath.Join(engine.RepoDir, "peg.peg.go"))
	if err != nil {
		return err
	}
	start := time.Now()
	cmd := exec.Command("bash", "./bootstrap.bash")
	cmd.Dir = dir
	cmd.Env = engine.GoEnvPlain()
	out, runErr := engine.RunLocked(cmd)
	c.evals++
	c.nontriv++
	if runErr != nil {
		c.report("bootstrap-chain", "bootstrap.bash on an export of the working tree", "all six generations succeed", "failed: "+clipS(string(out), 600))
		return nil
	}
	got, _ := os.ReadFile(filepath.Join(dir, "peg.peg.go"))
	if !bytes.Equal(got, want) {
		c.report("bootstrap-chain", "bootstrap.bash on an export of the working tree", "the chain reproduces the checked-in peg.peg.go byte for byte", fmt.Sprintf("%d bytes, checked-in has %d, first difference at offset %d", len(got), len(want), firstDiff(got, want)))
	}
	c.notes["chain_wall_s"] = time.Since(start).Seconds()
	c.samples = append(c.samples, fmt.Sprintf("bootstrap chain (hand-built tree -> peg0 -> bootstrap.peg -> peg.bootstrap.peg -> peg.peg x3 -> -inline -switch) reproduced peg.peg.go (%d bytes)", len(want)))
	return nil
}

func firstDiff(a, b []byte) int {
	n := min(len(a), len(b))
	for i := 0; i < n; i++ {
		if a[i] != b[i] {
			return i
		}
	}
	return n
}

// ---- part 2: front ends regenerated from peg.peg under every option combination

func (c *c17ctx) frontEnds(tier string, pegBin string) error {
	repo := engine.RepoHash()
	pegSrc, err := os.ReadFile(filepath.Join(engine.RepoDir, "peg.peg"))
	if err != nil {
		return err
	}
	// corpus
	maxVar := 6
	genOpts := []string{"", "is"}
	if tier == "thorough" {
		maxVar = 0
		genOpts = spec.AllVariants
	}
	t1, _ := families.T1(maxVar)
	corpus := append(append([]families.TextCase{}, t1...), families.T2(tier == "thorough")...)
	for _, f := range shippedFiles() {
		if b, err := os.ReadFile(filepath.Join(engine.RepoDir, f)); err == nil {
			corpus = append(corpus, families.TextCase{ID: f, Family: "shipped", Text: string(b)})
		}
	}
	for _, f := range []string{"peg.peg", "cmd/peg-bootstrap/bootstrap.peg", "cmd/peg-bootstrap/peg.bootstrap.peg"} {
		if b, err := os.ReadFile(filepath.Join(engine.RepoDir, f)); err == nil {
			corpus = append(corpus, families.TextCase{ID: f, Family: "self", Text: string(b)})
		}
	}
	var reqs []engine.GenReq
	for i, t := range corpus {
		for _, v := range genOpts {
			inl, sw, na := strings.Contains(v, "i"), strings.Contains(v, "s"), strings.Contains(v, "n")
			reqs = append(reqs, engine.GenReq{ID: fmt.Sprintf("%d/%s", i, v), Text: t.Text, Inline: inl, Switch: sw, NoAST: na, WantTree: true})
		}
	}
	baseBin, err := engine.BuildGenlab(repo)
	if err != nil {
		return err
	}
	base := engine.NewPool(baseBin, 16).Generate(reqs)
	dir, err := os.MkdirTemp("", "pegmc-fe-")
	if err != nil {
		return err
	}
	defer os.RemoveAll(dir)
	_ = os.WriteFile(filepath.Join(dir, "peg.peg"), pegSrc, 0o644)
	for _, v := range spec.ASTVariants {
		args := []string{}
		if strings.Contains(v, "i") {
			args = append(args, "-inline")
		}
		if strings.Contains(v, "s") {
			args = append(args, "-switch")
		}
		out := filepath.Join(dir, "front_"+spec.VariantName(v)+".go")
		r := runCLI(dir, nil, pegBin, append(args, "-strict", "-output", out, "peg.peg")...)
		if r.Exit != 0 {
			c.report("regenerate-front-end", "peg "+strings.Join(args, " ")+" peg.peg", "exit 0", fmt.Sprintf("exit %d: %s", r.Exit, clipS(r.Stderr, 300)))
			continue
		}
		src, _ := os.ReadFile(out)
		bin, err := engine.BuildGenlabWith(repo, src, "fe"+spec.VariantName(v))
		if err != nil {
			c.report("regenerate-front-end", "front end regenerated with ["+strings.Join(args, " ")+"]", "compiles", clipS(err.Error(), 400))
			continue
		}
		got := engine.NewPool(bin, 16).Generate(reqs)
		diffs := 0
		for k := range reqs {
			c.evals++
			a, b := &base[k], &got[k]
			what := fmt.Sprintf("front end regenerated with [%s], grammar text %s (%s), generation options [%s]", strings.Join(args, " "), corpus[k/len(genOpts)].ID, clipS(fmt.Sprintf("%q", reqs[k].Text), 160), spec.VariantName(genOpts[k%len(genOpts)]))
			accA, accB := a.ParseErr == "" && a.ParsePanic == "", b.ParseErr == "" && b.ParsePanic == ""
			switch {
			case (a.Crash != "") != (b.Crash != "") || a.ParsePanic != b.ParsePanic || a.ExecPanic != b.ExecPanic || a.Panic != b.Panic:
				c.report("front-ends-differ-crash", what, "same behaviour as the checked-in front end ("+a.FailSummary()+")", b.FailSummary())
				diffs++
			case a.Crash != "":
				// both generators died on this text (reported by C08/C10); nothing to compare
			case accA != accB:
				c.report("front-ends-differ-accept", what, fmt.Sprintf("accepted=%v as by the checked-in front end", accA), fmt.Sprintf("accepted=%v", accB))
				diffs++
			case a.Tree != b.Tree:
				c.report("front-ends-differ-tree", what, "the same rule tree as the checked-in front end builds", "a different tree")
				diffs++
			case a.Out != b.Out || a.Stderr != b.Stderr || a.Err != b.Err:
				c.report("front-ends-differ-code", what, "the same emitted code and warnings", fmt.Sprintf("code differs at offset %d; stderr %q vs %q", firstDiff([]byte(a.Out), []byte(b.Out)), clipS(a.Stderr, 80), clipS(b.Stderr, 80)))
				diffs++
			}
			if accA {
				c.nontriv++
			}
		}
		if diffs == 0 {
			c.samples = append(c.samples, fmt.Sprintf("front end regenerated from peg.peg with [%s]: same accept/reject, rule tree and emitted code as the checked-in one on %d grammar texts x %d option sets", strings.Join(args, " "), len(corpus), len(genOpts)))
		}
	}
	c.notes["front_end_corpus_texts"] = len(corpus)
	c.notes["front_end_generation_option_sets"] = len(genOpts)
	return nil
}

func shippedFiles() []string {
	return []string{"grammars/c/c.peg", "grammars/java/java_1_7.peg", "grammars/calculator/calculator.peg", "grammars/calculatorast/calculator.peg", "grammars/fexl/fexl.peg", "grammars/longtest/long.peg"}
}

// ---- part 3: shipped grammars under -strict and across option combinations

type shipped struct {
	dir, peg, structName string
	samples              []string
}

func shippedGrammars() []shipped {
	read := func(rel string) string {
		b, _ := os.ReadFile(filepath.Join(engine.RepoDir, rel))
		return string(b)
	}
	cSamples := []string{
		"int main(void) { return 0; }\n",
		"struct empty{};\nunion u { struct { int a; }; long b; };\n",
		"int f(int a, char *b) { if (a > 0) return a * (b[0] + 1); else return -a; }\n",
		"typedef unsigned long size_t; static const char *s = \"a\\n\\\"b\"; int x = (int)1.5e3;;\n",
		"void g() { for (int i = 0; i < 10; i++) { x += i % 3 ? i : ~i; } }\n",
	}
	return []shipped{
		{"grammars/c", "c.peg", "C", cSamples},
		{"grammars/java", "java_1_7.peg", "Java", []string{read("grammars/java/example-1.java"), read("grammars/java/example-2.java"), "class A { int f(int x) { return x > 0 ? x : -x; } }\n"}},
		{"grammars/calculator", "calculator.peg", "Calculator", []string{"( 1 - -3 ) / 3 + 2 * ( 3 + -4 ) + 3 % 2^2", "1+2*3", "2^3^2 % 7 - ( 4 )"}},
		{"grammars/calculatorast", "calculator.peg", "Calculator", []string{"( 1 - -3 ) / 3 + 2 * ( 3 + -4 ) + 3 % 2^2", "10/2-3"}},
		{"grammars/fexl", "fexl.peg", "Fexl", []string{read("grammars/fexl/doc/try.fxl")}},
		{"grammars/longtest", "long.peg", "Long", []string{"\"\"", "\"XXXXXXXXXXXX\"", "\"" + strings.Repeat("X", 300) + "\""}},
	}
}

var hostile = []string{"a", "b", "\x00", "\x80", "\xc3", "é", "\U00010000", "\U0010FFFF"}

// edits returns the sample and every single-position edit of it: deletion, truncation, and
// replacement by each byte string of the hostile alphabet (every `stride`-th position).
func edits(sample string, stride, maxLen int) (inputs, labels []string) {
	if len(sample) > maxLen {
		sample = sample[:maxLen]
	}
	inputs, labels = append(inputs, sample), append(labels, "sample")
	for i := 0; i < len(sample); i += stride {
		inputs, labels = append(inputs, sample[:i]+sample[i+1:]), append(labels, fmt.Sprintf("delete@%d", i))
		inputs, labels = append(inputs, sample[:i]), append(labels, fmt.Sprintf("truncate@%d", i))
		for _, h := range hostile {
			inputs, labels = append(inputs, sample[:i]+h+sample[i+1:]), append(labels, fmt.Sprintf("replace@%d:%q", i, h))
		}
	}
	return
}

var pkgRe = regexp.MustCompile(`(?m)^package (\w+)`)

func (c *c17ctx) shippedPart(tier, pegBin string) (*spec.Result, error) {
	total := &spec.Result{Counters: map[string]*spec.Counter{}, UnknownN: map[string]int64{}, KnownN: map[string]int64{}, KnownEx: map[string]spec.Mismatch{}}
	root := filepath.Join(engine.WorkDir(), fmt.Sprintf("c17-%d", os.Getpid()))
	_ = os.RemoveAll(root)
	defer os.RemoveAll(root)
	stride, maxLen, riEvery := 5, 400, 7
	if tier == "thorough" {
		stride, maxLen, riEvery = 1, 4000, 3
	}
	var mu sync.Mutex
	var wg sync.WaitGroup
	var firstErr error
	for gi, sg := range shippedGrammars() {
		wg.Add(1)
		go func(gi int, sg shipped) {
			defer wg.Done()
			fail := func(err error) {
				mu.Lock()
				if firstErr == nil {
					firstErr = err
				}
				mu.Unlock()
			}
			gdir := filepath.Join(root, fmt.Sprintf("g%d", gi))
			text, err := os.ReadFile(filepath.Join(engine.RepoDir, sg.dir, sg.peg))
			if err != nil {
				fail(err)
				return
			}
			rf, rerr := reader.Parse(string(text))
			if rerr != nil {
				c.report("shipped-grammar", sg.dir+"/"+sg.peg, "a grammar in the documented syntax", rerr.Error())
				return
			}
			rf.Grammar.Number()
			var imports, table strings.Builder
			rel, _ := filepath.Rel(engine.VerifDir, gdir)
			pkgName := ""
			for _, v := range spec.ASTVariants {
				vdir := filepath.Join(gdir, "v"+spec.VariantName(v))
				_ = os.MkdirAll(vdir, 0o755)
				// support code of the grammar's package
				ents, _ := os.ReadDir(filepath.Join(engine.RepoDir, sg.dir))
				for _, e := range ents {
					n := e.Name()
					if e.IsDir() || !strings.HasSuffix(n, ".go") || strings.HasSuffix(n, "_test.go") || strings.HasSuffix(n, ".peg.go") {
						continue
					}
					b, _ := os.ReadFile(filepath.Join(engine.RepoDir, sg.dir, n))
					_ = os.WriteFile(filepath.Join(vdir, n), b, 0o644)
				}
				_ = os.WriteFile(filepath.Join(vdir, sg.peg), text, 0o644)
				args := []string{"-strict"}
				if strings.Contains(v, "i") {
					args = append(args, "-inline")
				}
				if strings.Contains(v, "s") {
					args = append(args, "-switch")
				}
				r := runCLI(vdir, nil, pegBin, append(args, "-output", "gen.peg.go", sg.peg)...)
				c.mu.Lock()
				c.evals++
				c.nontriv++
				c.mu.Unlock()
				if r.Exit != 0 || strings.TrimSpace(r.Stderr) != "" {
					c.report("shipped-strict", fmt.Sprintf("peg %s %s/%s", strings.Join(args, " "), sg.dir, sg.peg), "exit 0 and no diagnostics", fmt.Sprintf("exit %d, stderr %q", r.Exit, clipS(r.Stderr, 300)))
					if r.Exit != 0 {
						return
					}
				}
				m := pkgRe.FindSubmatch(text)
				if m == nil {
					return
				}
				pkgName = string(m[1])
				probe := strings.NewReplacer("PKGNAME", pkgName, "STRUCT", sg.structName).Replace(shippedProbe)
				_ = os.WriteFile(filepath.Join(vdir, "zz_probe.go"), []byte(probe), 0o644)
				alias := "v" + spec.VariantName(v)
				fmt.Fprintf(&imports, "\t%s \"verif/%s/%s\"\n", alias, filepath.ToSlash(rel), alias)
				fmt.Fprintf(&table, "\t\t%q: %s.Probe,\n", v, alias)
			}
			mainSrc := "package main\n\nimport (\n\t\"verif/internal/runner\"\n" + imports.String() + ")\n\nfunc main() {\n\trunner.MainShipped(map[string]runner.ShippedProbe{\n" + table.String() + "\t})\n}\n"
			_ = os.WriteFile(filepath.Join(gdir, "main.go"), []byte(mainSrc), 0o644)
			bin := filepath.Join(gdir, "shipped.bin")
			cmd := exec.Command("go", "build", "-o", bin, "./"+filepath.ToSlash(rel))
			cmd.Dir = engine.VerifDir
			cmd.Env = engine.GoEnv()
			if out, err := engine.RunLocked(cmd); err != nil {
				c.report("shipped-build", sg.dir, "the generated parsers compile under all four option sets", clipS(string(out), 600))
				return
			}
			var inputs, labels []string
			for si, s := range sg.samples {
				in, lb := edits(s, stride, maxLen)
				for k := range in {
					inputs = append(inputs, hex.EncodeToString([]byte(in[k])))
					labels = append(labels, fmt.Sprintf("sample%d/%s", si, lb[k]))
				}
			}
			specFile, resFile, progress := filepath.Join(gdir, "spec.json"), filepath.Join(gdir, "result.json"), filepath.Join(gdir, "progress")
			write := func(skip map[string]bool) error {
				sp := runner.ShippedSpec{Name: sg.dir + "/" + sg.peg, G: rf.Grammar, Inputs: inputs, Labels: labels, RIEvery: riEvery, Known: c.known, Progress: progress, Result: resFile, Skip: skip}
				b, err := json.Marshal(&sp)
				if err != nil {
					return err
				}
				return os.WriteFile(specFile, b, 0o644)
			}
			if err := write(nil); err != nil {
				fail(err)
				return
			}
			crashes, err := engine.RunSupervised(bin, specFile, write, progress, 600*time.Second)
			if err != nil {
				fail(err)
				return
			}
			for _, cr := range crashes {
				c.report("shipped-"+cr.Kind, sg.dir+" on input "+cr.Key, "Parse returns", cr.Msg)
			}
			rb, err := os.ReadFile(resFile)
			if err != nil {
				fail(err)
				return
			}
			var r spec.Result
			if err := json.Unmarshal(rb, &r); err != nil {
				fail(err)
				return
			}
			mu.Lock()
			for p, cn := range r.Counters {
				d := total.Counters[p]
				if d == nil {
					d = &spec.Counter{}
					total.Counters[p] = d
				}
				d.Evals += cn.Evals
				d.Nontrivial += cn.Nontrivial
				if len(d.Samples) < 6 {
					d.Samples = append(d.Samples, cn.Samples...)
				}
			}
			total.Unknown = append(total.Unknown, r.Unknown...)
			for p, n := range r.UnknownN {
				total.UnknownN[p] += n
			}
			for f, n := range r.KnownN {
				total.KnownN[f] += n
			}
			total.Aborted += r.Aborted
			mu.Unlock()
		}(gi, sg)
	}
	wg.Wait()
	return total, firstErr
}

const shippedProbe = `// Code generated by pegmc (probe). DO NOT EDIT.
package PKGNAME

import (
	"fmt"

	"verif/internal/obs"
)

func Probe(input string) (o obs.Obs) {
	defer func() {
		if e := recover(); e != nil {
			o.Panic = fmt.Sprint(e)
		}
	}()
	p := &STRUCT[uint32]{Buffer: input}
	_ = p.Init()
	err := p.Parse()
	o.OK = err == nil
	if err != nil {
		if pe, ok := err.(*parseError[uint32]); ok {
			o.ErrTok = obs.Tok{Name: rul3s[pe.maxToken.pegRule], B: int(pe.maxToken.begin), E: int(pe.maxToken.end)}
			func() {
				defer func() {
					if e := recover(); e != nil {
						o.ErrPanic = fmt.Sprint(e)
					}
				}()
				o.ErrMsg = err.Error()
			}()
		} else {
			o.NotPErr = true
		}
		return
	}
	for _, t := range p.Tokens() {
		o.Toks = append(o.Toks, obs.Tok{Name: rul3s[t.pegRule], B: int(t.begin), E: int(t.end)})
	}
	return
}
`

// shippedResult runs (and caches per repository content) part 3; C13 reads its C13 part.
func shippedResult(tier string, known map[string]string) (*spec.Result, *c17ctx, error) {
	pegBin, err := buildPeg()
	if err != nil {
		return nil, nil, err
	}
	c := &c17ctx{known: known, knownHit: map[string]int{}, notes: map[string]any{}}
	r, err := c.shippedPart(tier, pegBin)
	return r, c, err
}

func c17Check(prop, tier string) (*Outcome, error) {
	fs, known, err := loadKnown()
	if err != nil {
		return nil, err
	}
	pegBin, err := buildPeg()
	if err != nil {
		return nil, err
	}
	c := &c17ctx{known: known, knownHit: map[string]int{}, notes: map[string]any{}}
	if err := c.chain(); err != nil {
		return nil, err
	}
	if err := c.frontEnds(tier, pegBin); err != nil {
		return nil, err
	}
	sr, err := c.shippedPart(tier, pegBin)
	if err != nil {
		return nil, err
	}
	out := &Outcome{Level: "exploration", Coverage: map[string]any{}, Exhaustive: true}
	if cn := sr.Counters["C17"]; cn != nil {
		c.evals += cn.Evals
		c.nontriv += cn.Nontrivial
		c.samples = append(c.samples, cn.Samples...)
	}
	for _, m := range sr.Unknown {
		if m.Prop == "C17" {
			c.vios = append(c.vios, c17vio{m.ID, fmt.Sprintf("%s: %s [%s] input %s: want %s, got %s", m.Kind, m.Grammar, m.Variant, clipS(m.Input, 200), m.Want, m.Got), m})
		}
	}
	extra := int(sr.UnknownN["C17"])
	sort.Slice(c.vios, func(i, j int) bool { return c.vios[i].sum < c.vios[j].sum })
	perKind := map[string]int{}
	for _, v := range c.vios {
		kind := v.sum[:strings.Index(v.sum, ":")]
		perKind[kind]++
		if perKind[kind] <= 8 && len(out.Violations) < 200 {
			out.Violations = append(out.Violations, Violation{ID: v.id, Summary: v.sum, Payload: v.payload})
		}
	}
	out.ViolationN = max(len(c.vios), extra)
	for _, f := range fs {
		if n := c.knownHit[f.Property+"/"+f.ID]; n > 0 && !f.Fixed {
			out.Known = append(out.Known, fmt.Sprintf("id=%s pinned_cases_failing=%d what=%q", f.ID, n, f.What))
		}
	}
	if len(c.samples) > 8 {
		c.samples = c.samples[:8]
	}
	out.Coverage["evaluations"] = c.evals
	out.Coverage["distinct_nontrivial"] = c.nontriv
	out.Coverage["samples"] = c.samples
	out.Coverage["notes"] = c.notes
	out.Coverage["violations_by_kind"] = perKind
	out.Coverage["model_evaluations_aborted"] = sr.Aborted
	out.Coverage["rule"] = "(1) bootstrap.bash replayed on an export of the working tree: all six generations run and the result equals the checked-in peg.peg.go byte for byte; (2) the front end regenerated from peg.peg under {}, {-inline}, {-switch}, {-inline,-switch} is compiled and fed the whole text corpus (spelling variants T1, edited texts T2, shipped grammars, peg.peg, bootstrap grammars): accept/reject, rule tree and emitted code (per generation option set) equal the checked-in front end's; (3) every shipped grammar generates under -strict silently for all four AST option sets, the four parsers are compiled and agree on verdict, tokens and (without -switch) error token on the sample inputs and on every single-position edit (delete, truncate, replace by each hostile byte string), and a subset is compared with the packrat reference interpreter"
	out.Assumptions = []string{"part 1 is one deterministic computation (nothing to enumerate)", "quick tier edits every 5th position of samples cut at 400 bytes; thorough edits every position of samples up to 4000 bytes"}
	return out, nil
}

func init() {
	checks["C17"] = c17Check
	// the shipped-grammar part also serves C13 (no crash / offsets on real-world grammars)
	suiteFuncs["shipped"] = func(tier string, known map[string]string) (*engine.SuiteResult, error) {
		repo := engine.RepoHash()
		cacheFile := filepath.Join(engine.CacheDir(), "obs", fmt.Sprintf("shipped-%s-%s-%s-%s.json", tier, repo, engine.SelfHash(), knownHash(known)))
		if os.Getenv("VERIF_NOCACHE") == "" {
			if b, err := os.ReadFile(cacheFile); err == nil {
				var r engine.SuiteResult
				if json.Unmarshal(b, &r) == nil {
					return &r, nil
				}
			}
		}
		start := time.Now()
		sr, c, err := shippedResult(tier, known)
		if err != nil {
			return nil, err
		}
		r := &engine.SuiteResult{Name: "shipped", Tier: tier, RepoHash: repo, Families: map[string]int{"SHIPPED": len(shippedGrammars())}, Counters: sr.Counters,
			Unknown: sr.Unknown, UnknownN: sr.UnknownN, KnownN: sr.KnownN, KnownEx: sr.KnownEx, Aborted: sr.Aborted, Exhaustive: true, Items: len(shippedGrammars()), Packages: 4 * len(shippedGrammars()), Built: 4 * len(shippedGrammars())}
		for _, v := range c.vios {
			// failures to generate / build a shipped grammar are violations of C13's premise too
			r.Unknown = append(r.Unknown, spec.Mismatch{Prop: "C13", Kind: "shipped-setup", ID: v.id, Grammar: "shipped", Want: "shipped grammars generate and build", Got: v.sum})
			if r.UnknownN == nil {
				r.UnknownN = map[string]int64{}
			}
			r.UnknownN["C13"]++
		}
		r.WallS = time.Since(start).Seconds()
		_ = os.MkdirAll(filepath.Dir(cacheFile), 0o755)
		b, _ := json.Marshal(r)
		_ = os.WriteFile(cacheFile, b, 0o644)
		return r, nil
	}
}
