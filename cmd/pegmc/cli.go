package main

import (
	"bytes"
	"context"
	"fmt"
	"os"
	"os/exec"
	"path/filepath"
	"regexp"
	"runtime"
	"sort"
	"strings"
	"sync"
	"syscall"
	"time"
	"unsafe"

	"verif/internal/ag"
	"verif/internal/engine"
	"verif/internal/families"
	"verif/internal/spec"
)

// buildPeg builds the real peg binary from the repository's current working tree.
func buildPeg() (string, error) {
	repo := engine.RepoHash()
	bin := filepath.Join(engine.CacheDir(), "peg-"+repo)
	if _, err := os.Stat(bin); err == nil {
		return bin, nil
	}
	unlock := engine.Lock("pegbin")
	defer unlock()
	if _, err := os.Stat(bin); err == nil {
		return bin, nil
	}
	cmd := exec.Command("go", "build", "-o", bin+".tmp", ".")
	cmd.Dir = engine.RepoDir
	cmd.Env = engine.GoEnv()
	if out, err := engine.RunLocked(cmd); err != nil {
		return "", fmt.Errorf("building peg from %s failed:\n%s", engine.RepoDir, out)
	}
	return bin, os.Rename(bin+".tmp", bin)
}

type cliRun struct {
	Exit     int
	Stdout   string
	Stderr   string
	TimedOut bool
}

func runCLI(dir string, stdin []byte, bin string, args ...string) cliRun {
	ctx, cancel := context.WithTimeout(context.Background(), 120*time.Second)
	defer cancel()
	cmd := exec.CommandContext(ctx, bin, args...)
	cmd.Dir = dir
	var so, se bytes.Buffer
	cmd.Stdout, cmd.Stderr = &so, &se
	if stdin != nil {
		cmd.Stdin = bytes.NewReader(stdin)
	}
	err := cmd.Run()
	r := cliRun{Stdout: so.String(), Stderr: se.String()}
	if ctx.Err() != nil {
		r.TimedOut = true
		r.Exit = -1
		return r
	}
	if err != nil {
		if ee, ok := err.(*exec.ExitError); ok {
			r.Exit = ee.ExitCode()
			if ws, ok := ee.Sys().(syscall.WaitStatus); ok && ws.Signaled() {
				r.Exit = 128 + int(ws.Signal())
			}
		} else {
			r.Exit = -2
			r.Stderr += "\n[exec error] " + err.Error()
		}
	}
	return r
}

// runCLIChunks runs the binary with a pipe as standard input and writes the chunks one at a time:
// the next chunk is written only after the child has consumed the previous one (FIONREAD on the
// pipe is 0) and a short pause, so that the child sees several short reads before end of input.
// A reader that reads until EOF gets the concatenation whatever the timing.
func runCLIChunks(dir string, chunks [][]byte, bin string, args ...string) cliRun {
	ctx, cancel := context.WithTimeout(context.Background(), 120*time.Second)
	defer cancel()
	cmd := exec.CommandContext(ctx, bin, args...)
	cmd.Dir = dir
	var so, se bytes.Buffer
	cmd.Stdout, cmd.Stderr = &so, &se
	pr, pw, err := os.Pipe()
	if err != nil {
		return cliRun{Exit: -2, Stderr: "[exec error] " + err.Error()}
	}
	cmd.Stdin = pr
	if err := cmd.Start(); err != nil {
		pr.Close()
		pw.Close()
		return cliRun{Exit: -2, Stderr: "[exec error] " + err.Error()}
	}
	go func() {
		defer pw.Close()
		for _, c := range chunks {
			if _, err := pw.Write(c); err != nil {
				return // the child has gone
			}
			for i := 0; i < 5000; i++ {
				var n int32
				if _, _, e := syscall.Syscall(syscall.SYS_IOCTL, pr.Fd(), syscall.TIOCINQ, uintptr(unsafe.Pointer(&n))); e != 0 || n == 0 {
					break
				}
				time.Sleep(time.Millisecond)
			}
			time.Sleep(20 * time.Millisecond)
		}
	}()
	err = cmd.Wait()
	pr.Close()
	r := cliRun{Stdout: so.String(), Stderr: se.String()}
	if ctx.Err() != nil {
		r.TimedOut = true
		r.Exit = -1
		return r
	}
	if err != nil {
		if ee, ok := err.(*exec.ExitError); ok {
			r.Exit = ee.ExitCode()
			if ws, ok := ee.Sys().(syscall.WaitStatus); ok && ws.Signaled() {
				r.Exit = 128 + int(ws.Signal())
			}
		} else {
			r.Exit = -2
			r.Stderr += "\n[exec error] " + err.Error()
		}
	}
	return r
}

var (
	undefRe  = regexp.MustCompile(`rule '([^']*)' used but not defined`)
	unusedRe = regexp.MustCompile(`rule '([^']*)' defined but not used`)
	leftRe   = regexp.MustCompile(`possible infinite left recursion in rule '([^']*)'`)
	logTSRe  = regexp.MustCompile(`(?m)^\d{4}/\d{2}/\d{2} \d{2}:\d{2}:\d{2} `)
)

func nameSet(re *regexp.Regexp, s string) []string {
	m := map[string]bool{}
	for _, x := range re.FindAllStringSubmatch(s, -1) {
		m[x[1]] = true
	}
	out := make([]string, 0, len(m))
	for k := range m {
		out = append(out, k)
	}
	sort.Strings(out)
	return out
}

// residue returns what is left of stderr after removing the three documented diagnostics.
func residue(stderr string) string {
	s := logTSRe.ReplaceAllString(stderr, "")
	var keep []string
	for _, ln := range strings.Split(s, "\n") {
		t := strings.TrimSpace(ln)
		t = strings.TrimPrefix(t, "warning: ")
		if t == "" || undefRe.MatchString(t) || unusedRe.MatchString(t) || leftRe.MatchString(t) {
			continue
		}
		keep = append(keep, t)
	}
	return strings.Join(keep, "\n")
}

var genOptSets = [][]string{{}, {"-inline"}, {"-switch"}, {"-inline", "-switch"}, {"-noast"}, {"-inline", "-switch", "-noast"}}

func c15Check(prop, tier string) (*Outcome, error) {
	bin, err := buildPeg()
	if err != nil {
		return nil, err
	}
	_, known, err := loadKnown()
	if err != nil {
		return nil, err
	}
	var gs []*ag.Grammar
	gs = append(gs, families.G(1, 26)...)
	gs = append(gs, families.G(2, 26)...)
	if tier == "thorough" {
		gs = append(gs, families.G(3, 9)...)
	} else {
		gs = append(gs, families.G(3, 4)...)
	}
	gs = append(gs, families.GNames()...)
	nGraph := len(gs)
	gs = append(gs, families.GDuplicates()...)
	out := &Outcome{Level: "exploration", Coverage: map[string]any{}, Exhaustive: true}
	type vio struct {
		id, sum string
		payload any
	}
	var mu sync.Mutex
	var vios []vio
	knownHit := map[string]int{}
	var evals, nontrivial int64
	var samples []string
	classes := map[string]int{}
	root := filepath.Join(engine.WorkDir(), fmt.Sprintf("c15-%d", os.Getpid()))
	defer os.RemoveAll(root)
	var wg sync.WaitGroup
	next := make(chan int)
	report := func(g *ag.Grammar, strict bool, kind, want, got string, r cliRun, text string) {
		gshow := ag.Show(g)
		id := spec.CaseID("C15", kind, gshow, fmt.Sprint(strict), "", "", false, false, "")
		mu.Lock()
		defer mu.Unlock()
		if f, ok := known[id]; ok {
			knownHit[f]++
			return
		}
		cmdline := ""
		if i := strings.LastIndex(text, "\n# peg "); i >= 0 {
			cmdline = " (" + text[i+3:] + ")"
		}
		vios = append(vios, vio{id, fmt.Sprintf("%s: grammar `%s` strict=%v%s: want %s, got %s", kind, gshow, strict, cmdline, want, got),
			map[string]any{"grammar": gshow, "text": text, "strict": strict, "kind": kind, "want": want, "got": got, "exit": r.Exit, "stderr": clipS(r.Stderr, 1500)}})
	}
	for w := 0; w < runtime.NumCPU(); w++ {
		wg.Add(1)
		go func(w int) {
			defer wg.Done()
			dir := filepath.Join(root, fmt.Sprintf("w%d", w))
			_ = os.MkdirAll(dir, 0o755)
			for gi := range next {
				g := gs[gi]
				dup := gi >= nGraph
				text := ag.Render(g, ag.RenderOpts{Package: "g"})
				_ = os.WriteFile(filepath.Join(dir, "g.peg"), []byte(text), 0o644)
				an := ag.Analyze(g)
				wantUndef, wantUnused, wantLeft := an.Undefined(), an.Unused(), an.LeftRecursive()
				anyDiag := len(wantUndef)+len(wantUnused)+len(wantLeft) > 0
				// the diagnostics do not depend on the code-generation options: each grammar runs without
				// -strict under one option set and with -strict under the next one of the rotation
				// (thorough: every option set, with and without -strict)
				type runCfg struct {
					strict bool
					opts   []string
				}
				runs := []runCfg{{false, genOptSets[gi%len(genOptSets)]}, {true, genOptSets[(gi+1)%len(genOptSets)]}}
				if tier == "thorough" {
					runs = nil
					for _, o := range genOptSets {
						runs = append(runs, runCfg{false, o}, runCfg{true, o})
					}
				}
				for _, rc := range runs {
					strict := rc.strict
					_ = os.Remove(filepath.Join(dir, "out.go"))
					args := append(append([]string{}, rc.opts...), "-output", "out.go", "g.peg")
					if strict {
						args = append([]string{"-strict"}, args...)
					}
					r := runCLI(dir, nil, bin, args...)
					text := text + "\n# peg " + strings.Join(args, " ")
					mu.Lock()
					evals++
					if anyDiag {
						nontrivial++
					}
					cls := fmt.Sprintf("undef=%d unused=%d leftrec=%d dup=%v", len(wantUndef), len(wantUnused), len(wantLeft), dup)
					classes[cls]++
					if len(samples) < 6 && anyDiag && gi%37 == 0 {
						samples = append(samples, fmt.Sprintf("%s  strict=%v -> exit %d, expected diagnostics: undefined=%v unused=%v left-recursive=%v", ag.Show(g), strict, r.Exit, wantUndef, wantUnused, wantLeft))
					}
					mu.Unlock()
					if r.TimedOut {
						report(g, strict, "hang", "peg terminates", "no exit within 120s", r, text)
						continue
					}
					if r.Exit >= 2 && (strings.Contains(r.Stderr, "goroutine ") || strings.Contains(r.Stderr, "panic:") || r.Exit > 128) {
						report(g, strict, "crash", "a diagnostic", "generator crashed: "+firstLineOf(r.Stderr), r, text)
						continue
					}
					if dup {
						// a rule defined twice is diagnosed (its name appears in a message) rather than crashing
						names := an.Duplicates()
						for _, n := range names {
							if !strings.Contains(r.Stderr, "'"+n+"'") {
								report(g, strict, "duplicate-undiagnosed", "a diagnostic naming rule "+n, "stderr: "+clipS(r.Stderr, 200), r, text)
							}
						}
						if strict && r.Exit == 0 {
							report(g, strict, "duplicate-strict-exit", "non-zero exit under -strict", "exit 0", r, text)
						}
						continue
					}
					gotUndef, gotUnused, gotLeft := nameSet(undefRe, r.Stderr), nameSet(unusedRe, r.Stderr), nameSet(leftRe, r.Stderr)
					if fmt.Sprint(gotUndef) != fmt.Sprint(wantUndef) {
						report(g, strict, "used-but-not-defined", fmt.Sprint(wantUndef), fmt.Sprint(gotUndef), r, text)
					}
					if fmt.Sprint(gotUnused) != fmt.Sprint(wantUnused) {
						report(g, strict, "defined-but-not-used", fmt.Sprint(wantUnused), fmt.Sprint(gotUnused), r, text)
					}
					if (len(gotLeft) > 0) != (len(wantLeft) > 0) {
						report(g, strict, "left-recursion", fmt.Sprintf("diagnostic iff some rule re-enters itself without consuming: %v", wantLeft), fmt.Sprint(gotLeft), r, text)
					} else {
						in := map[string]bool{}
						for _, n := range wantLeft {
							in[n] = true
						}
						for _, n := range gotLeft {
							if !in[n] {
								report(g, strict, "left-recursion-wrong-rule", fmt.Sprintf("a rule on a cycle: %v", wantLeft), n, r, text)
							}
						}
					}
					if res := residue(r.Stderr); res != "" {
						report(g, strict, "unexpected-message", "only the documented diagnostics", clipS(res, 300), r, text)
					}
					if strict {
						if (r.Exit != 0) != anyDiag {
							report(g, strict, "strict-exit", fmt.Sprintf("exit!=0 iff diagnostics (%v)", anyDiag), fmt.Sprintf("exit %d", r.Exit), r, text)
						}
					} else {
						if r.Exit != 0 {
							report(g, strict, "exit", "exit 0 without -strict", fmt.Sprintf("exit %d", r.Exit), r, text)
						}
						if b, err := os.ReadFile(filepath.Join(dir, "out.go")); err != nil || !bytes.HasPrefix(b, []byte("// Code generated")) {
							report(g, strict, "no-output", "generated file", "missing or empty output", r, text)
						}
					}
				}
			}
		}(w)
	}
	for i := range gs {
		next <- i
	}
	close(next)
	wg.Wait()
	sort.Slice(vios, func(i, j int) bool { return vios[i].sum < vios[j].sum })
	perKind := map[string]int{}
	for _, v := range vios {
		kind := v.sum[:strings.Index(v.sum, ":")]
		perKind[kind]++
		if perKind[kind] <= 8 && len(out.Violations) < 200 {
			out.Violations = append(out.Violations, Violation{ID: v.id, Summary: v.sum, Payload: v.payload})
		}
	}
	out.ViolationN = len(vios)
	fs, _, _ := loadKnown()
	for _, f := range fs {
		if n := knownHit[f.Property+"/"+f.ID]; n > 0 && !f.Fixed {
			out.Known = append(out.Known, fmt.Sprintf("id=%s pinned_cases_failing=%d what=%q", f.ID, n, f.What))
		}
	}
	if len(samples) == 0 {
		samples = []string{"(none)"}
	}
	out.Coverage["evaluations"] = evals
	out.Coverage["distinct_nontrivial"] = nontrivial
	out.Coverage["samples"] = samples
	out.Coverage["programs"] = len(gs)
	out.Coverage["grammars_by_expected_diagnostics"] = classes
	out.Coverage["rule"] = "rule-graph family G: every assignment of (body template, target rule or undefined name) to 1, 2 and 3 rules, templates placing the reference under every operator and behind every kind of nullable / consuming prefix, plus duplicate definitions; each grammar run through the real peg binary with and without -strict; diagnostics compared with an independent reachability / nullable-prefix-cycle analysis; non-trivial = at least one diagnostic expected"
	out.Assumptions = []string{"independent analysis internal/ag (nullable fixpoint, left-reference graph through every operator) is the oracle", "which member of a left-recursive cycle is named, and repeated lines, are not constrained"}
	// the behaviour suite also reports diagnostics printed for well-formed grammars
	if r, err := suiteResult("beh", tier, known); err == nil {
		out.ViolationN += int(r.UnknownN["C15"])
		for _, m := range r.Unknown {
			if m.Prop == "C15" && len(out.Violations) < 60 {
				out.Violations = append(out.Violations, Violation{ID: m.ID, Payload: m, Summary: fmt.Sprintf("%s [%s] grammar `%s`: want %s, got %s", m.Kind, m.Variant, m.Grammar, m.Want, m.Got)})
			}
		}
		if c := r.Counters["C15"]; c != nil {
			out.Coverage["well_formed_grammars_checked_for_silence"] = c.Evals
		}
	} else {
		return nil, err
	}
	return out, nil
}

func clipS(s string, n int) string {
	if len(s) > n {
		return s[:n] + "…"
	}
	return s
}

func firstLineOf(s string) string {
	s = strings.TrimSpace(s)
	if i := strings.IndexByte(s, '\n'); i >= 0 {
		return s[:i]
	}
	return s
}

func init() { checks["C15"] = c15Check }
