package main

import (
	"fmt"
	"os"
	"time"

	"verif/internal/ag"
	"verif/internal/engine"
	"verif/internal/families"
	"verif/internal/ri"
	"verif/internal/spec"
)

type riCase struct {
	g     *ag.Grammar
	entry string
	in    string
	ok    bool
	end   int
	toks  string
}

// Hand-written expectations (from Ford's paper and the peg documentation) that pin the reference
// interpreter independently of the implementation under test.
func riTable() []riCase {
	a, b := ag.L("a"), ag.L("b")
	g1 := func(e *ag.Expr) *ag.Grammar { g := ag.G("t", ag.Rule{Name: "S", Body: e}); g.Number(); return g }
	// classic: S <- 'a' S 'b' / ''   (a^n b^n prefix)
	anbn := ag.G("anbn", ag.Rule{Name: "S", Body: ag.A(ag.S(ag.L("a"), ag.N("S"), ag.L("b")), ag.E())})
	// prioritized choice does not backtrack into a committed alternative: S <- ('a' / 'ab') 'c'
	prio := g1(ag.S(ag.A(ag.L("a"), ag.L("ab")), ag.L("c")))
	// greedy possessive repetition: S <- 'a'* 'a' never matches
	poss := g1(ag.S(ag.U(ag.Star, a), ag.L("a")))
	// lookahead: S <- &'a' . / !'b' .
	look := g1(ag.A(ag.S(ag.U(ag.And, a), ag.D()), ag.S(ag.U(ag.Not, b), ag.D())))
	// captures and rules: S <- <A> B ; A <- 'a'+ ; B <- 'b'?
	cap := ag.G("cap", ag.Rule{Name: "S", Body: ag.S(ag.U(ag.Cap, ag.N("A")), ag.N("B"))}, ag.Rule{Name: "A", Body: ag.U(ag.Plus, ag.L("a"))}, ag.Rule{Name: "B", Body: ag.U(ag.Opt, ag.L("b"))})
	// tokens inside a failed alternative are discarded: S <- A 'x' / A 'y' ; A <- 'a'
	disc := ag.G("disc", ag.Rule{Name: "S", Body: ag.A(ag.S(ag.N("A"), ag.L("x")), ag.S(ag.N("A"), ag.L("y")))}, ag.Rule{Name: "A", Body: ag.L("a")})
	ci := g1(ag.LI("ab"))
	cls := g1(ag.C(ag.R('b', 'd'), ag.R('x', 'x')))
	ncls := g1(ag.CN(ag.R('b', 'd')))
	cicls := g1(&ag.Expr{K: ag.Class, Items: []ag.Item{{Lo: 'A', Hi: 'C'}}, CI: true})
	return []riCase{
		{anbn, "S", "aabb", true, 4, "S[2,2] S[1,3] S[0,4]"},
		{anbn, "S", "aab", true, 0, "S[0,0]"},
		{anbn, "S", "", true, 0, "S[0,0]"},
		{prio, "S", "ac", true, 2, "S[0,2]"},
		{prio, "S", "abc", false, 0, ""},
		{poss, "S", "aaa", false, 0, ""},
		{look, "S", "a", true, 1, "S[0,1]"},
		{look, "S", "b", false, 0, ""},
		{look, "S", "c", true, 1, "S[0,1]"},
		{look, "S", "", false, 0, ""},
		{cap, "S", "aab", true, 3, "A[0,2] PegText[0,2] B[2,3] S[0,3]"},
		{cap, "S", "a", true, 1, "A[0,1] PegText[0,1] B[1,1] S[0,1]"},
		{cap, "A", "aab", true, 2, "A[0,2]"},
		{cap, "S", "b", false, 0, ""},
		{disc, "S", "ay", true, 2, "A[0,1] S[0,2]"},
		{disc, "S", "az", false, 0, ""},
		{ci, "S", "aB", true, 2, "S[0,2]"},
		{ci, "S", "Ab", true, 2, "S[0,2]"},
		{ci, "S", "ac", false, 0, ""},
		{cls, "S", "c", true, 1, "S[0,1]"},
		{cls, "S", "x", true, 1, "S[0,1]"},
		{cls, "S", "a", false, 0, ""},
		{cls, "S", "e", false, 0, ""},
		{ncls, "S", "a", true, 1, "S[0,1]"},
		{ncls, "S", "c", false, 0, ""},
		{ncls, "S", "", false, 0, ""},
		{cicls, "S", "b", true, 1, "S[0,1]"},
		{cicls, "S", "B", true, 1, "S[0,1]"},
		{cicls, "S", "d", false, 0, ""},
		{g1(ag.S(ag.L("é"), ag.D())), "S", "é汉", true, 2, "S[0,2]"},
	}
}

func selftest() int {
	fail := 0
	for i, c := range riTable() {
		r := ri.New(c.g).Parse(c.entry, []rune(c.in))
		got := ""
		for j, t := range r.Toks {
			if j > 0 {
				got += " "
			}
			got += t.String()
		}
		if r.Abort != "" || r.OK != c.ok || (c.ok && (r.End != c.end || got != c.toks)) {
			fmt.Printf("selftest: reference interpreter case %d (%s on %q): want ok=%v end=%d toks=%q, got ok=%v end=%d toks=%q abort=%q\n", i, ag.Show(c.g), c.in, c.ok, c.end, c.toks, r.OK, r.End, got, r.Abort)
			fail++
		}
	}
	// error token: first furthest non-empty completed token
	{
		g := ag.G("e", ag.Rule{Name: "S", Body: ag.S(ag.N("A"), ag.N("B"), ag.L("!"))}, ag.Rule{Name: "A", Body: ag.L("a")}, ag.Rule{Name: "B", Body: ag.U(ag.Star, ag.L("b"))})
		r := ri.New(g).Parse("S", []rune("abbx"))
		if r.OK || r.ErrTok != (ri.Tok{Name: "B", B: 1, E: 3}) {
			fmt.Printf("selftest: error token: got %v\n", r.ErrTok)
			fail++
		}
		if l, c := ri.LineCol([]rune("ab\ncd"), 3); l != 2 || c != 1 {
			fmt.Printf("selftest: LineCol: got %d,%d\n", l, c)
			fail++
		}
	}
	if fail > 0 {
		return 1
	}
	fmt.Println("selftest: reference interpreter table ok")
	// warm the dedicated build cache with a two-grammar suite (also proves the whole pipeline works offline)
	e, err := engine.NewEngine()
	if err != nil {
		fmt.Fprintln(os.Stderr, err)
		return 2
	}
	cases := families.F1(1, 1, 2, spec.AllVariants)[:3]
	res, err := e.RunSuite("warm", "quick", cases, nil, time.Time{})
	if err != nil {
		fmt.Fprintln(os.Stderr, err)
		return 2
	}
	// everything in the dedicated build cache now (standard library, framework libraries) is "warm":
	// later runs delete whatever else accumulates
	engine.TrimGoCacheReset()
	fmt.Printf("selftest: pipeline ok (%d packages built and run in %.1fs)\n", res.Built, res.WallS)
	return 0
}
