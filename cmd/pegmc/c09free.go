package main

import (
	"bytes"
	"encoding/json"
	"fmt"
	"os"
	"os/exec"
	"path/filepath"
	"strings"

	"verif/internal/engine"
)

// c09FreeRunning: call-order histories, concurrent generations under the race detector, and
// repeats of the real binary under different GOMAXPROCS values.
func c09FreeRunning(root, tier string, jobs []c09Job, addV func(kind, name, msg, schedule string)) (map[string]any, error) {
	note := map[string]any{}
	fdir := filepath.Join(root, "free")
	_ = os.MkdirAll(fdir, 0o755)
	src, err := os.ReadFile(filepath.Join(engine.VerifDir, "internal/c09h/free.go.txt"))
	if err != nil {
		return nil, err
	}
	front, err := os.ReadFile(filepath.Join(engine.RepoDir, "peg.peg.go"))
	if err != nil {
		return nil, err
	}
	_ = os.WriteFile(filepath.Join(fdir, "main.go"), src, 0o644)
	_ = os.WriteFile(filepath.Join(fdir, "peg.peg.go"), front, 0o644)
	rel, _ := filepath.Rel(engine.VerifDir, fdir)
	bin := filepath.Join(root, "c09free.bin")
	build := func(race bool) error {
		args := []string{"build"}
		if race {
			args = append(args, "-race")
		}
		args = append(args, "-o", bin, "./"+filepath.ToSlash(rel))
		cmd := exec.Command("go", args...)
		cmd.Dir = engine.VerifDir
		cmd.Env = append(engine.GoEnv(), "CGO_ENABLED=1")
		if o, err := engine.RunLocked(cmd); err != nil {
			return fmt.Errorf("%s", clipS(string(o), 1500))
		}
		return nil
	}
	race := true
	if err := build(true); err != nil {
		race = false
		note["race_detector"] = "not available: " + firstLineOf(err.Error())
		if err := build(false); err != nil {
			return nil, fmt.Errorf("building the free-running harness failed: %v", err)
		}
	}
	jb, _ := json.Marshal(jobs)
	jobsFile := filepath.Join(root, "free-jobs.json")
	_ = os.WriteFile(jobsFile, jb, 0o644)
	runs := 0
	for _, procs := range []string{"1", "2", "4", "16"} {
		resFile := filepath.Join(root, "free-"+procs+".json")
		cmd := exec.Command(bin, jobsFile, resFile)
		cmd.Env = append(os.Environ(), "GOMAXPROCS="+procs, "GORACE=halt_on_error=0")
		var se bytes.Buffer
		cmd.Stderr = &se
		runErr := cmd.Run()
		runs++
		if ee, ok := runErr.(*exec.ExitError); strings.Contains(se.String(), "DATA RACE") || (ok && ee.ExitCode() == 66) {
			addV("data-race", "free-running generations, GOMAXPROCS="+procs, firstRace(se.String()), "")
		} else if runErr != nil && (strings.Contains(se.String(), "pointlander/peg/tree.") || strings.Contains(se.String(), "pointlander/peg/set.")) && (strings.Contains(se.String(), "panic:") || strings.Contains(se.String(), "fatal error:")) {
			// the generator itself crashed while generations ran one after another or concurrently
			addV("free-running-crash", "free-running generations, GOMAXPROCS="+procs, "the generator crashed: "+clipS(crashSummary(se.String()), 900), "")
			continue
		} else if runErr != nil {
			return nil, fmt.Errorf("free-running harness failed: %v\n%s", runErr, clipS(se.String(), 1000))
		}
		var res struct {
			Problems  []string `json:"problems"`
			Histories int      `json:"histories"`
			Rounds    int      `json:"concurrent_rounds"`
		}
		if b, err := os.ReadFile(resFile); err == nil && json.Unmarshal(b, &res) == nil {
			seen := map[string]bool{}
			for _, p := range res.Problems {
				if !seen[p] {
					seen[p] = true
					addV("free-running", "GOMAXPROCS="+procs, p, "")
				}
			}
			note["call_order_histories_per_run"] = res.Histories
			note["concurrent_rounds_per_run"] = res.Rounds
		}
	}
	note["free_running_processes"] = runs
	if race {
		note["race_detector"] = "enabled (-race), GOMAXPROCS 1,2,4,16: no race reported"
	}
	// the real binary, repeated under different scheduler settings
	pegBin, err := buildPeg()
	if err != nil {
		return nil, err
	}
	repeats := 0
	for _, j := range jobs {
		dir := filepath.Join(root, "cli")
		_ = os.MkdirAll(dir, 0o755)
		_ = os.WriteFile(filepath.Join(dir, "g.peg"), []byte(j.Text), 0o644)
		args := []string{}
		if j.Inline {
			args = append(args, "-inline")
		}
		if j.Switch {
			args = append(args, "-switch")
		}
		if j.Strict {
			args = append(args, "-strict")
		}
		args = append(args, "-output", "-", "g.peg")
		var first *cliRun
		for _, procs := range []string{"1", "2", "16"} {
			for rep := 0; rep < 3; rep++ {
				cmd := exec.Command(pegBin, args...)
				cmd.Dir = dir
				cmd.Env = append(os.Environ(), "GOMAXPROCS="+procs)
				var so, se bytes.Buffer
				cmd.Stdout, cmd.Stderr = &so, &se
				err := cmd.Run()
				// log.Fatal (used under -strict) prefixes the wall-clock time
				r := cliRun{Stdout: so.String(), Stderr: logTSRe.ReplaceAllString(se.String(), "")}
				if err != nil {
					r.Exit = 1
				}
				repeats++
				if first == nil {
					first = &r
				} else if r.Stdout != first.Stdout || r.Stderr != first.Stderr || r.Exit != first.Exit {
					addV("process-repeat", j.Name+" GOMAXPROCS="+procs, fmt.Sprintf("output, warnings or exit status differ between runs of the same command (stderr %q vs %q)", clipS(first.Stderr, 200), clipS(r.Stderr, 200)), "")
				}
			}
		}
	}
	note["process_repeats"] = repeats
	return note, nil
}

// crashSummary: the panic line and the frames inside the repository's packages.
func crashSummary(trace string) string {
	var keep []string
	for _, l := range strings.Split(trace, "\n") {
		if strings.HasPrefix(l, "panic:") || strings.HasPrefix(l, "fatal error:") || strings.Contains(l, "pointlander/peg/tree.") || strings.Contains(l, "pointlander/peg/set.") {
			keep = append(keep, strings.TrimSpace(l))
		}
		if len(keep) >= 8 {
			break
		}
	}
	return strings.Join(keep, " | ")
}
