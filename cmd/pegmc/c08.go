package main

import (
	"encoding/json"
	"fmt"
	"os"
	"path/filepath"

	"verif/internal/ag"
	"verif/internal/engine"
	"verif/internal/families"
	"verif/internal/spec"
)

func staticCases(tier string) []families.TextCase {
	var cs []families.TextCase
	sizes := []int{1, 2, 100, 253, 254, 255, 256, 257, 300}
	if tier == "thorough" {
		sizes = append(sizes, 1000, 3000)
	}
	cs = append(cs, families.F9(sizes)...)
	cs = append(cs, families.Imports()...)
	cs = append(cs, families.Headers()...)
	cs = append(cs, families.HostileLiterals()...)
	cs = append(cs, families.CodeBlocks()...)
	cs = append(cs, families.UnusedRules()...)
	// every grammar of the behaviour suite, under all eight option sets (the suite itself compiles
	// only some of them)
	for _, c := range behSuite(tier) {
		if c.Mode == spec.ModeHostile {
			continue
		}
		cs = append(cs, families.TextCase{ID: c.G.ID + " " + ag.Show(c.G), Family: c.Family, Text: ag.Render(c.G, ag.RenderOpts{Package: "g"}), TextNoAST: ag.Render(c.G, ag.RenderOpts{Package: "g", NoAST: true, EndProb: true}), Valid: true})
	}
	return cs
}

func staticResult(tier string, known map[string]string) (*engine.SuiteResult, error) {
	repo := engine.RepoHash()
	cacheFile := filepath.Join(engine.CacheDir(), "obs", fmt.Sprintf("static-%s-%s-%s-%s.json", tier, repo, engine.SelfHash(), knownHash(known)))
	if os.Getenv("VERIF_NOCACHE") == "" {
		if b, err := os.ReadFile(cacheFile); err == nil {
			var r engine.SuiteResult
			if json.Unmarshal(b, &r) == nil {
				return &r, nil
			}
		}
	}
	unlock := engine.Lock("suite-static")
	defer unlock()
	e, err := engine.NewEngine()
	if err != nil {
		return nil, err
	}
	r, err := e.RunStatic("static", tier, staticCases(tier), spec.AllVariants, known)
	if err != nil {
		return nil, err
	}
	_ = os.MkdirAll(filepath.Dir(cacheFile), 0o755)
	b, _ := json.Marshal(r)
	_ = os.WriteFile(cacheFile, b, 0o644)
	return r, nil
}

func init() {
	suiteFuncs["static"] = staticResult
}
