package main

import (
	"encoding/json"
	"fmt"
	"os"
	"os/exec"
	"path/filepath"

	"verif/internal/engine"
	"verif/internal/spec"
)

// buildTool builds one of the check-time tools (cmd/<name>) against the repository's current
// working tree and returns the binary path (cached by repository content hash).
func buildTool(name string) (string, error) {
	repo := engine.RepoHash()
	bin := filepath.Join(engine.CacheDir(), fmt.Sprintf("%s-%s-%s", name, repo, engine.SelfHash()))
	if _, err := os.Stat(bin); err == nil {
		return bin, nil
	}
	unlock := engine.Lock("tool-" + name)
	defer unlock()
	if _, err := os.Stat(bin); err == nil {
		return bin, nil
	}
	cmd := exec.Command("go", "build", "-o", bin+".tmp", "./cmd/"+name)
	cmd.Dir = engine.VerifDir
	cmd.Env = engine.GoEnv()
	if out, err := engine.RunLocked(cmd); err != nil {
		return "", fmt.Errorf("building %s against %s failed:\n%s", name, engine.RepoDir, out)
	}
	return bin, os.Rename(bin+".tmp", bin)
}

type setViolation struct {
	ID     string `json:"id"`
	Op     string `json:"op"`
	State  string `json:"state"`
	State2 string `json:"state2"`
	Recipe string `json:"recipe"`
	Want   string `json:"want"`
	Got    string `json:"got"`
}

type setResult struct {
	L           int            `json:"L"`
	Base        int64          `json:"base"`
	States      int            `json:"states"`
	AddStates   int            `json:"states_reached_by_addrange_only"`
	Transitions int64          `json:"transitions"`
	Checks      int64          `json:"checks"`
	Pairs       int64          `json:"pairs"`
	Nontrivial  int64          `json:"nontrivial_states"`
	MaxDepth    int            `json:"max_depth"`
	Fixpoint    bool           `json:"fixpoint"`
	Cap         int            `json:"cap"`
	Violations  []setViolation `json:"violations"`
	ViolationN  int            `json:"violation_n"`
	Hung        string         `json:"hung"`
	ByKind      map[string]int `json:"violations_by_kind"`
	Samples     []string       `json:"samples"`
	WallS       float64        `json:"wall_s"`
}

func c16Check(prop, tier string) (*Outcome, error) {
	bin, err := buildTool("setmc")
	if err != nil {
		return nil, err
	}
	_, known, err := loadKnown()
	if err != nil {
		return nil, err
	}
	type run struct {
		L    int
		base string
	}
	runs := []run{{5, "0"}, {3, "2147483643"}, {3, "1114108"}}
	if tier == "thorough" {
		runs = []run{{7, "0"}, {5, "2147483641"}, {5, "1114106"}}
	}
	out := &Outcome{Level: "model_checking", Coverage: map[string]any{}, Exhaustive: true}
	var states, trans, traces, pairs int64
	var samples []string
	perRun := []any{}
	for _, r := range runs {
		tmp := filepath.Join(engine.CacheDir(), fmt.Sprintf("setmc-%d-%s-%d.json", r.L, r.base, os.Getpid()))
		cmd := exec.Command(bin, "-L", fmt.Sprint(r.L), "-base", r.base, "-o", tmp)
		cmd.Stderr = os.Stderr
		runErr := cmd.Run()
		b, err := os.ReadFile(tmp)
		_ = os.Remove(tmp)
		if err != nil {
			return nil, fmt.Errorf("setmc produced no result (%v)", runErr)
		}
		var sr setResult
		if err := json.Unmarshal(b, &sr); err != nil {
			return nil, err
		}
		states += int64(sr.States)
		trans += sr.Transitions
		traces += sr.Transitions + sr.Checks
		pairs += sr.Pairs
		if !sr.Fixpoint || sr.Hung != "" {
			out.Exhaustive = false
		}
		for _, s := range sr.Samples {
			if len(samples) < 8 {
				samples = append(samples, s)
			}
		}
		perRun = append(perRun, map[string]any{"universe": fmt.Sprintf("%s..%s+%d", r.base, r.base, r.L+1), "states": sr.States, "states_reached_by_addrange_only": sr.AddStates,
			"transitions": sr.Transitions, "ordered_pairs": sr.Pairs, "oracle_checks": sr.Checks, "fixpoint_reached": sr.Fixpoint, "max_depth": sr.MaxDepth,
			"states_with_2+_intervals": sr.Nontrivial, "violations_by_kind": sr.ByKind, "wall_s": sr.WallS})
		for _, v := range sr.Violations {
			id := spec.CaseID("C16", v.Op, v.State, v.State2, "", v.Got, false, false, fmt.Sprintf("base=%s", r.base))
			if f, ok := known[id]; ok {
				out.Known = append(out.Known, fmt.Sprintf("id=%s %s on %s", f, v.Op, v.Recipe))
				continue
			}
			out.ViolationN++
			if len(out.Violations) < 40 {
				out.Violations = append(out.Violations, Violation{ID: id, Payload: v, Summary: fmt.Sprintf("set.%s: %s : want %s, got %s (universe base %s)", v.Op, v.Recipe, v.Want, v.Got, r.base)})
			}
		}
		if extra := sr.ViolationN - len(sr.Violations); extra > 0 {
			out.ViolationN += extra
		}
	}
	out.Coverage["states"] = states
	out.Coverage["transitions"] = trans
	out.Coverage["traces_validated_against_impl"] = traces
	out.Coverage["samples"] = samples
	out.Coverage["ordered_pairs_checked"] = pairs
	out.Coverage["runs"] = perRun
	out.Coverage["evaluations"] = traces
	out.Coverage["distinct_nontrivial"] = states
	out.Coverage["rule"] = "explicit-state BFS over STRUCTURAL states (the list of (Begin,End) nodes) of set.Set from NewSet() under every AddRange(b,e) of the universe until no new structure appears, extended with the results of Complement(limit), Union and Copy of reached states until fixpoint; every state: Has/Len/String/Copy/Complement against an interval model; every ordered pair: Union/Intersects/Equal and operand immutability; three universes: at 0, just below MaxInt32 and just below U+10FFFF"
	out.Assumptions = []string{"universe of L+2 consecutive code points per run (small-scope)", "the model is a bit vector over the window plus one flag for [0, base)", "a call that does not return within 20 s is reported as non-terminating"}
	return out, nil
}

func init() { checks["C16"] = c16Check }
