package main

import (
	"encoding/json"
	"fmt"
	"os"
	"time"

	"verif/internal/engine"
	"verif/internal/spec"
)

func main() {
	if len(os.Args) < 2 {
		fmt.Fprintln(os.Stderr, "usage: pegmc <command> ...")
		os.Exit(2)
	}
	switch os.Args[1] {
	case "trial":
		trial()
	case "sizes":
		for _, tier := range []string{"quick", "thorough"} {
			for name, f := range suites {
				fam, pk := map[string]int{}, map[string]int{}
				for _, c := range f(tier) {
					fam[c.Family]++
					pk[c.Family] += len(c.Variants)
				}
				fmt.Println(tier, name, "grammars", fam, "packages", pk)
			}
		}
	case "replay":
		if len(os.Args) < 3 {
			fmt.Fprintln(os.Stderr, "usage: pegmc replay <replay-dir>")
			os.Exit(2)
		}
		os.Exit(replay(os.Args[2]))
	case "selftest":
		os.Exit(selftest())
	case "check":
		if len(os.Args) < 3 {
			fmt.Fprintln(os.Stderr, "usage: pegmc check <property> [--tier quick|thorough]")
			os.Exit(2)
		}
		tier := os.Getenv("VERIF_TIER")
		for i, a := range os.Args {
			if a == "--tier" && i+1 < len(os.Args) {
				tier = os.Args[i+1]
			}
		}
		if tier != "thorough" {
			tier = "quick"
		}
		os.Exit(runCheck(os.Args[2], tier))
	default:
		fmt.Fprintln(os.Stderr, "unknown command")
		os.Exit(2)
	}
}

func trial() {
	e, err := engine.NewEngine()
	if err != nil {
		fmt.Fprintln(os.Stderr, err)
		os.Exit(2)
	}
	cases := suites[os.Args[2]](os.Args[3])
	fmt.Println("cases", len(cases))
	t := time.Now()
	res, err := e.RunSuite("trial", "quick", cases, nil, time.Time{})
	if err != nil {
		fmt.Fprintln(os.Stderr, err)
		os.Exit(2)
	}
	fmt.Println("wall", time.Since(t))
	groups := map[string]int{}
	ex := map[string]spec.Mismatch{}
	for _, m := range res.Unknown {
		k := m.Prop + " " + m.Kind + " " + m.Variant + " " + engine.NormMsg(m.Got)
		groups[k]++
		if _, ok := ex[k]; !ok {
			ex[k] = m
		}
	}
	for k, n := range groups {
		m := ex[k]
		fmt.Printf("%4d %s\n       e.g. %s entry=%q input=%s want=%s got=%s\n", n, k, m.Grammar, m.Entry, m.Input, m.Want, m.Got)
	}
	res.Unknown = nil
	for _, c := range res.Counters {
		c.Samples = nil
	}
	b, _ := json.Marshal(res)
	fmt.Println(string(b))
}
