package main

import (
	"encoding/json"
	"fmt"
	"os"
	"path/filepath"
	"sort"
	"strconv"
	"strings"
	"time"

	"verif/internal/engine"
	"verif/internal/findings"
	"verif/internal/spec"
)

type Violation struct {
	ID      string
	Summary string
	Payload any
}

type Outcome struct {
	Level       string
	Coverage    map[string]any
	Assumptions []string
	Violations  []Violation
	ViolationN  int
	Known       []string // KNOWN-FINDING lines (without prefix)
	Exhaustive  bool
}

type Evidence struct {
	PropertyID  string         `json:"property_id"`
	Tier        string         `json:"tier"`
	Seed        int            `json:"seed"`
	Level       string         `json:"level"`
	Coverage    map[string]any `json:"coverage"`
	Assumptions []string       `json:"assumptions"`
	WallS       float64        `json:"wall_s"`
	Violations  int            `json:"violations"`
}

type checkFunc func(prop, tier string) (*Outcome, error)

var checks = map[string]checkFunc{}

func envInt(name string, def int) int {
	if v, err := strconv.Atoi(os.Getenv(name)); err == nil {
		return v
	}
	return def
}

func budgetDeadline(tier string) time.Time {
	def := 0
	if tier == "thorough" {
		def = 2400
	}
	s := envInt("VERIF_BUDGET_S", def)
	if s <= 0 {
		return time.Time{}
	}
	return time.Now().Add(time.Duration(s) * time.Second)
}

func runCheck(prop, tier string) int {
	start := time.Now()
	f, ok := checks[prop]
	if !ok {
		fmt.Fprintf(os.Stderr, "no check registered for %s\n", prop)
		return 2
	}
	evDir := filepath.Join(engine.VerifDir, "evidence")
	if d := os.Getenv("VERIF_EVIDENCE_DIR"); d != "" {
		evDir = d // dev helper: do not overwrite the real evidence when checking a mutated checkout
	}
	evPath := filepath.Join(evDir, prop+".json")
	_ = os.Remove(evPath)
	out, err := f(prop, tier)
	if err != nil {
		fmt.Fprintf(os.Stderr, "pegmc: check %s could not run: %v\n", prop, err)
		return 2
	}
	seed := envInt("VERIF_SEED", 0)
	ev := Evidence{PropertyID: prop, Tier: tier, Seed: seed, Level: out.Level, Coverage: out.Coverage, Assumptions: out.Assumptions,
		WallS: time.Since(start).Seconds(), Violations: out.ViolationN}
	if ev.Assumptions == nil {
		ev.Assumptions = []string{}
	}
	ev.Coverage["exhaustive"] = out.Exhaustive
	ev.Coverage["seed_note"] = "VERIF_SEED is recorded only; the enumeration is deterministic and complete within the stated bounds"
	b, _ := json.MarshalIndent(&ev, "", " ")
	_ = os.MkdirAll(filepath.Dir(evPath), 0o755)
	if err := os.WriteFile(evPath, append(b, '\n'), 0o644); err != nil {
		fmt.Fprintf(os.Stderr, "pegmc: cannot write evidence: %v\n", err)
		return 2
	}
	for _, k := range out.Known {
		fmt.Printf("KNOWN-FINDING: property=%s %s\n", prop, k)
	}
	if out.ViolationN == 0 {
		fmt.Printf("OK property=%s tier=%s exhaustive=%v wall=%.1fs\n", prop, tier, out.Exhaustive, ev.WallS)
		return 0
	}
	shown := 0
	for _, v := range out.Violations {
		dir := filepath.Join(engine.VerifDir, "replays", prop, v.ID)
		_ = os.MkdirAll(dir, 0o755)
		pb, _ := json.MarshalIndent(v.Payload, "", " ")
		_ = os.WriteFile(filepath.Join(dir, "case.json"), append(pb, '\n'), 0o644)
		_ = os.WriteFile(filepath.Join(dir, "summary.txt"), []byte(v.Summary+"\n"), 0o644)
		fmt.Printf("VIOLATION property=%s replay=%s\n", prop, dir)
		fmt.Printf("  %s\n", v.Summary)
		shown++
		if shown >= 12 {
			break
		}
	}
	if os.Getenv("VERIF_SUMMARY") != "" {
		groups := map[string]int{}
		ex := map[string]string{}
		for _, v := range out.Violations {
			k := v.Summary
			if i := strings.Index(k, ":"); i > 0 {
				k = k[:i]
			}
			groups[k]++
			if ex[k] == "" {
				ex[k] = v.Summary
			}
		}
		for k, n := range groups {
			fmt.Printf("  [%d of first %d] %s\n      e.g. %s\n", n, len(out.Violations), k, ex[k])
		}
	}
	fmt.Printf("FAIL property=%s tier=%s violations=%d (distinct shown: %d)\n", prop, tier, out.ViolationN, shown)
	return 1
}

// ---------------------------------------------------------------- engine A backed properties

func loadKnown() ([]*findings.Finding, map[string]string, error) {
	fs, err := findings.Load(engine.VerifDir)
	if err != nil {
		return nil, nil, err
	}
	return fs, findings.KnownMap(fs), nil
}

// suiteFuncs: suites that are not plain behaviour enumerations.
var suiteFuncs = map[string]func(tier string, known map[string]string) (*engine.SuiteResult, error){}

// suiteResult returns the (cached) result of a suite for the current repository content.
func suiteResult(name, tier string, known map[string]string) (*engine.SuiteResult, error) {
	if f, ok := suiteFuncs[name]; ok {
		return f(tier, known)
	}
	def, ok := suites[name]
	if !ok {
		return nil, fmt.Errorf("unknown suite %s", name)
	}
	repo := engine.RepoHash()
	kh := knownHash(known)
	cacheFile := filepath.Join(engine.CacheDir(), "obs", fmt.Sprintf("%s-%s-%s-%s-%s.json", name, tier, repo, engine.SelfHash(), kh))
	load := func() *engine.SuiteResult {
		if os.Getenv("VERIF_NOCACHE") != "" {
			return nil
		}
		b, err := os.ReadFile(cacheFile)
		if err != nil {
			return nil
		}
		var r engine.SuiteResult
		if json.Unmarshal(b, &r) != nil {
			return nil
		}
		return &r
	}
	if r := load(); r != nil {
		return r, nil
	}
	unlock := engine.Lock("suite-" + name + "-" + tier)
	defer unlock()
	if r := load(); r != nil {
		return r, nil
	}
	e, err := engine.NewEngine()
	if err != nil {
		return nil, err
	}
	cases := def(tier)
	r, err := e.RunSuite(name, tier, cases, known, budgetDeadline(tier))
	if err != nil {
		return nil, err
	}
	_ = os.MkdirAll(filepath.Dir(cacheFile), 0o755)
	b, _ := json.Marshal(r)
	_ = os.WriteFile(cacheFile, b, 0o644)
	engine.MaybeTrimGoCache()
	return r, nil
}

func knownHash(known map[string]string) string {
	keys := make([]string, 0, len(known))
	for k, v := range known {
		keys = append(keys, k+v)
	}
	sort.Strings(keys)
	return spec.CaseID(strings.Join(keys, ","), "", "", "", "", "", false, false, "")[:8]
}

type propInfo struct {
	suites      []string
	rule        string
	assumptions []string
}

var behProps = map[string]propInfo{}

func behCheck(prop, tier string) (*Outcome, error) {
	info := behProps[prop]
	fs, known, err := loadKnown()
	if err != nil {
		return nil, err
	}
	out := &Outcome{Level: "exploration", Coverage: map[string]any{}, Exhaustive: true, Assumptions: info.assumptions}
	var evals, nontrivial int64
	var samples []string
	families := map[string]int{}
	suiteNotes := map[string]any{}
	knownN := map[string]int64{}
	knownEx := map[string]spec.Mismatch{}
	seen := map[string]bool{}
	programs := 0
	for _, sn := range info.suites {
		r, err := suiteResult(sn, tier, known)
		if err != nil {
			return nil, err
		}
		if c := r.Counters[prop]; c != nil {
			evals += c.Evals
			nontrivial += c.Nontrivial
			for _, s := range c.Samples {
				if len(samples) < 6 && !seen[s] {
					seen[s] = true
					samples = append(samples, s)
				}
			}
		}
		for f, n := range r.Families {
			families[f] += n
		}
		programs += r.Built
		suiteNotes[sn] = map[string]any{"grammars": r.Items, "parser_packages_generated": r.Packages, "parser_packages_compiled_and_run": r.Built,
			"variants_not_comparable": r.NotComparable, "ri_evaluations_aborted": r.Aborted, "exhaustive": r.Exhaustive, "note": r.Note, "suite_wall_s": r.WallS, "repo_hash": r.RepoHash}
		if !r.Exhaustive {
			out.Exhaustive = false
		}
		for _, m := range r.Unknown {
			if m.Prop != prop {
				continue
			}
			if len(out.Violations) < 50 {
				out.Violations = append(out.Violations, Violation{ID: m.ID, Payload: m,
					Summary: fmt.Sprintf("%s/%s [%s] grammar `%s` entry=%q input=%s nomemo=%v: want %s, got %s", m.Kind, m.Family, m.Variant, m.Grammar, m.Entry, clipS(m.Input, 160), m.NoMemo, clipS(m.Want, 1500), clipS(m.Got, 1500))})
			}
		}
		out.ViolationN += int(r.UnknownN[prop])
		for f, n := range r.KnownN {
			if strings.HasPrefix(f, prop+"/") {
				knownN[f] += n
				if _, ok := knownEx[f]; !ok {
					knownEx[f] = r.KnownEx[f]
				}
			}
		}
	}
	for _, f := range fs {
		key := f.Property + "/" + f.ID
		if f.Fixed || f.Property != prop {
			continue
		}
		if n := knownN[key]; n > 0 {
			ex := knownEx[key]
			out.Known = append(out.Known, fmt.Sprintf("id=%s pinned_cases_failing=%d what=%q e.g. grammar `%s` [%s] input=%s", f.ID, n, f.What, ex.Grammar, ex.Variant, ex.Input))
		}
	}
	if len(samples) == 0 {
		samples = []string{"(no case of this property in the selected suites)"}
	}
	out.Coverage["evaluations"] = evals
	out.Coverage["distinct_nontrivial"] = nontrivial
	out.Coverage["rule"] = info.rule
	out.Coverage["samples"] = samples
	out.Coverage["programs"] = programs
	out.Coverage["grammars_per_family"] = families
	out.Coverage["suites"] = suiteNotes
	out.Coverage["traces_validated_against_impl"] = evals
	out.Coverage["known_finding_cases"] = knownN
	if prop == "C12" {
		// history exploration: report it as such
		out.Level = "model_checking"
		var st, tr int64
		for _, sn := range info.suites {
			if r, err := suiteResult(sn, tier, known); err == nil && r.Counters[prop] != nil {
				st += r.Counters[prop].States
				tr += r.Counters[prop].Trans
			}
		}
		out.Coverage["states"] = st
		out.Coverage["transitions"] = tr
		out.Coverage["traces_validated_against_impl"] = tr
	}
	return out, nil
}
