// Package reader is an independent, hand-written recursive-descent reader of the documented
// .peg syntax (docs/peg-file-syntax.md plus the lexical conventions of the peg/leg family). It
// produces an abstract grammar with the DOCUMENTED denotation of every construct: single quotes
// case-sensitive, double quotes and [[...]] case-insensitive, [^...] negation, the escape table,
// precedence alternation < sequence < prefix < suffix. It shares no code with the repository.
package reader

import (
	"fmt"
	"strconv"
	"strings"
	"unicode/utf8"

	"verif/internal/ag"
)

type Import struct {
	Path, Alias string
}

type File struct {
	Package    string
	Imports    []Import
	Struct     string
	State      string
	Comments   []string
	Grammar    *ag.Grammar
	Boundaries []int // byte offsets at which white space / comments may be inserted without changing the meaning
	// Grey is set when the text uses something whose meaning the documentation does not fix
	// (upper-case escape letters, case-insensitive non-ASCII letters, reversed or mixed-case
	// ranges in [[ ]], empty literals or classes): meanings are then not compared.
	Grey []string
}

type parser struct {
	src     string
	pos     int
	f       *File
	acts    int
	escaped bool // the last char() was written as an escape
}

type syntaxError struct {
	pos int
	msg string
}

func (e *syntaxError) Error() string { return fmt.Sprintf("offset %d: %s", e.pos, e.msg) }

func (p *parser) fail(format string, a ...any) {
	panic(&syntaxError{p.pos, fmt.Sprintf(format, a...)})
}

// Parse reads a complete grammar file.
func Parse(src string) (f *File, err error) {
	p := &parser{src: src, f: &File{Grammar: &ag.Grammar{}}}
	defer func() {
		if r := recover(); r != nil {
			if se, ok := r.(*syntaxError); ok {
				f, err = nil, se
				return
			}
			panic(r)
		}
	}()
	p.file()
	return p.f, nil
}

func (p *parser) eof() bool { return p.pos >= len(p.src) }

func (p *parser) peek() rune {
	if p.eof() {
		return -1
	}
	r, _ := utf8.DecodeRuneInString(p.src[p.pos:])
	return r
}

func (p *parser) next() rune {
	r, n := utf8.DecodeRuneInString(p.src[p.pos:])
	p.pos += n
	return r
}

func (p *parser) has(s string) bool { return strings.HasPrefix(p.src[p.pos:], s) }

func (p *parser) eat(s string) bool {
	if p.has(s) {
		p.pos += len(s)
		return true
	}
	return false
}

func (p *parser) boundary() {
	if n := len(p.f.Boundaries); n == 0 || p.f.Boundaries[n-1] != p.pos {
		p.f.Boundaries = append(p.f.Boundaries, p.pos)
	}
}

func (p *parser) endOfLine() bool { return p.eat("\r\n") || p.eat("\n") || p.eat("\r") }

// comment: '#' or '//' up to and including the end of the line
func (p *parser) comment() (string, bool) {
	start := p.pos
	if !(p.eat("#") || p.eat("//")) {
		return "", false
	}
	body := p.pos
	for !p.eof() && !p.has("\n") && !p.has("\r") {
		p.next()
	}
	text := p.src[body:p.pos]
	if !p.endOfLine() {
		// a comment must be terminated by an end of line
		p.pos = start
		return "", false
	}
	return text, true
}

// spacing skips white space and comments; returns whether anything was skipped.
func (p *parser) spacing() bool {
	start := p.pos
	for {
		if p.eat(" ") || p.eat("\t") || p.endOfLine() {
			continue
		}
		if _, ok := p.comment(); ok {
			continue
		}
		break
	}
	p.boundary()
	return p.pos > start
}

func isIdentStart(r rune) bool { return r == '_' || (r >= 'a' && r <= 'z') || (r >= 'A' && r <= 'Z') }
func isIdentCont(r rune) bool  { return isIdentStart(r) || (r >= '0' && r <= '9') }

func (p *parser) identifier() (string, bool) {
	if !isIdentStart(p.peek()) {
		return "", false
	}
	start := p.pos
	for isIdentCont(p.peek()) {
		p.next()
	}
	name := p.src[start:p.pos]
	p.spacing()
	return name, true
}

func (p *parser) keyword(k string) bool {
	if p.has(k) {
		p.pos += len(k)
		return true
	}
	return false
}

// action: '{' balanced '}' ; returns the text between the outer braces
func (p *parser) action() (string, bool) {
	if p.peek() != '{' {
		return "", false
	}
	start := p.pos
	depth := 0
	for !p.eof() {
		c := p.next()
		if c == '{' {
			depth++
		} else if c == '}' {
			depth--
			if depth == 0 {
				text := p.src[start+1 : p.pos-1]
				p.spacing()
				return text, true
			}
		}
	}
	p.pos = start
	p.fail("unbalanced braces")
	return "", false
}

func (p *parser) file() {
	// header: comments and white space
	for {
		if p.eat(" ") || p.eat("\t") || p.endOfLine() {
			continue
		}
		if c, ok := p.comment(); ok {
			p.f.Comments = append(p.f.Comments, c)
			continue
		}
		break
	}
	p.boundary()
	if !p.keyword("package") {
		p.fail("expected 'package'")
	}
	if !p.spacing() {
		p.fail("expected white space after 'package'")
	}
	name, ok := p.identifier()
	if !ok {
		p.fail("expected package name")
	}
	p.f.Package = name
	for p.has("import") {
		save := p.pos
		p.pos += len("import")
		p.spacing()
		if p.eat("(") {
			p.spacing()
			for p.peek() != ')' {
				p.importName()
				if !p.eat("\n") {
					p.fail("expected newline after import in group")
				}
				p.spacing()
			}
			p.eat(")")
		} else if !p.importName() {
			p.pos = save
			break
		}
		p.spacing()
	}
	if !p.keyword("type") {
		p.fail("expected 'type'")
	}
	if !p.spacing() {
		p.fail("expected white space after 'type'")
	}
	if name, ok = p.identifier(); !ok {
		p.fail("expected parser name")
	}
	p.f.Struct = name
	if !p.keyword("Peg") {
		p.fail("expected 'Peg'")
	}
	p.spacing()
	state, ok := p.action()
	if !ok {
		p.fail("expected '{' of the parser state")
	}
	p.f.State = state
	n := 0
	for {
		if !p.definition() {
			break
		}
		n++
	}
	if n == 0 {
		p.fail("expected a rule definition")
	}
	if !p.eof() {
		p.fail("unexpected text after the last rule")
	}
}

func (p *parser) importName() bool {
	save := p.pos
	alias := ""
	if id, ok := p.identifier(); ok {
		alias = id
	}
	if !p.eat(`"`) {
		p.pos = save
		p.fail("expected import path")
	}
	start := p.pos
	for {
		c := p.peek()
		if (c >= '0' && c <= '9') || (c >= 'a' && c <= 'z') || (c >= 'A' && c <= 'Z') || c == '_' || c == '/' || c == '.' || c == '-' {
			p.next()
			continue
		}
		break
	}
	if p.pos == start || !p.eat(`"`) {
		p.fail("bad import path")
	}
	p.f.Imports = append(p.f.Imports, Import{Path: p.src[start : p.pos-1], Alias: alias})
	return true
}

func (p *parser) leftArrow() bool {
	if p.eat("<-") || p.eat("←") {
		p.spacing()
		return true
	}
	return false
}

func (p *parser) definition() bool {
	save := p.pos
	name, ok := p.identifier()
	if !ok {
		return false
	}
	if !p.leftArrow() {
		p.pos = save
		return false
	}
	body := p.expression()
	p.f.Grammar.Rules = append(p.f.Grammar.Rules, ag.Rule{Name: name, Body: body})
	// a definition must be followed by another definition or the end of the text
	if !p.eof() {
		s := p.pos
		_, ok := p.identifier()
		ok = ok && p.leftArrow()
		nb := len(p.f.Boundaries)
		p.pos = s
		_ = nb
		if !ok {
			p.fail("expected a rule definition or end of text")
		}
	}
	return true
}

// expression <- sequence ('/' sequence)* ('/')? | empty
func (p *parser) expression() *ag.Expr {
	first, ok := p.sequence()
	if !ok {
		return ag.E()
	}
	alts := []*ag.Expr{first}
	for p.peek() == '/' && !p.has("//") {
		p.next()
		p.spacing()
		s, ok := p.sequence()
		if !ok {
			alts = append(alts, ag.E())
			break
		}
		alts = append(alts, s)
	}
	if len(alts) == 1 {
		return first
	}
	return ag.A(alts...)
}

func (p *parser) sequence() (*ag.Expr, bool) {
	first, ok := p.prefix()
	if !ok {
		return nil, false
	}
	items := []*ag.Expr{first}
	for {
		e, ok := p.prefix()
		if !ok {
			break
		}
		items = append(items, e)
	}
	if len(items) == 1 {
		return first, true
	}
	return ag.S(items...), true
}

func (p *parser) prefix() (*ag.Expr, bool) {
	switch p.peek() {
	case '&', '!':
		save := p.pos
		op := p.next()
		p.spacing()
		if p.peek() == '{' {
			text, _ := p.action()
			if op == '&' {
				return &ag.Expr{K: ag.Pred, Raw: text, N: 1}, true
			}
			return &ag.Expr{K: ag.Side, Raw: text}, true
		}
		e, ok := p.suffix()
		if !ok {
			p.pos = save
			p.fail("expected an operand after %c", op)
		}
		if op == '&' {
			return ag.U(ag.And, e), true
		}
		return ag.U(ag.Not, e), true
	}
	return p.suffix()
}

func (p *parser) suffix() (*ag.Expr, bool) {
	e, ok := p.primary()
	if !ok {
		return nil, false
	}
	switch p.peek() {
	case '?':
		p.next()
		p.spacing()
		return ag.U(ag.Opt, e), true
	case '*':
		p.next()
		p.spacing()
		return ag.U(ag.Star, e), true
	case '+':
		p.next()
		p.spacing()
		return ag.U(ag.Plus, e), true
	}
	return e, true
}

func (p *parser) primary() (*ag.Expr, bool) {
	c := p.peek()
	switch {
	case isIdentStart(c):
		save := p.pos
		nb := len(p.f.Boundaries)
		name, _ := p.identifier()
		// an identifier followed by an arrow starts the next definition
		s2 := p.pos
		if p.eat("<-") || p.eat("←") {
			p.pos = save
			p.f.Boundaries = p.f.Boundaries[:nb]
			return nil, false
		}
		p.pos = s2
		return ag.N(name), true
	case c == '(':
		p.next()
		p.spacing()
		e := p.expression()
		if !p.eat(")") {
			p.fail("expected ')'")
		}
		p.spacing()
		return e, true
	case c == '\'' || c == '"':
		return p.literal(), true
	case c == '[':
		return p.class(), true
	case c == '.':
		p.next()
		p.spacing()
		return ag.D(), true
	case c == '{':
		text, _ := p.action()
		return &ag.Expr{K: ag.Act, Raw: text}, true
	case c == '<' && !p.has("<-"):
		p.next()
		p.spacing()
		e := p.expression()
		if !p.eat(">") {
			p.fail("expected '>'")
		}
		p.spacing()
		return ag.U(ag.Cap, e), true
	}
	return nil, false
}

// char reads one (possibly escaped) character of a literal or class.
func (p *parser) char() rune {
	p.escaped = false
	if p.peek() != '\\' {
		if p.eof() {
			p.fail("unterminated literal")
		}
		return p.next()
	}
	p.escaped = true
	p.next()
	if p.eof() {
		p.fail("dangling backslash")
	}
	// hexadecimal: \0x followed by hex digits (any number)
	if p.has("0x") || p.has("0X") {
		if p.has("0X") {
			p.f.Grey = append(p.f.Grey, "upper-case 0X")
		}
		save := p.pos
		p.pos += 2
		start := p.pos
		for strings.ContainsRune("0123456789abcdefABCDEF", p.peek()) && !p.eof() {
			p.next()
		}
		if p.pos > start {
			v, err := strconv.ParseInt(p.src[start:p.pos], 16, 64)
			if err != nil || v > 0x10FFFF {
				p.f.Grey = append(p.f.Grey, "hex escape out of range")
				v = 0xFFFD
			}
			return rune(v)
		}
		p.pos = save
	}
	c := p.peek()
	// octal: [0-3][0-7][0-7] or [0-7][0-7]?
	if c >= '0' && c <= '7' {
		start := p.pos
		if c <= '3' && p.pos+2 < len(p.src) && p.src[p.pos+1] >= '0' && p.src[p.pos+1] <= '7' && p.src[p.pos+2] >= '0' && p.src[p.pos+2] <= '7' {
			p.pos += 3
		} else {
			p.pos++
			if d := p.peek(); d >= '0' && d <= '7' {
				p.pos++
			}
		}
		v, _ := strconv.ParseInt(p.src[start:p.pos], 8, 32)
		return rune(v)
	}
	p.next()
	switch c {
	case 'a':
		return '\a'
	case 'b':
		return '\b'
	case 'e':
		return 0x1B
	case 'f':
		return '\f'
	case 'n':
		return '\n'
	case 'r':
		return '\r'
	case 't':
		return '\t'
	case 'v':
		return '\v'
	case '\'', '"', '[', ']', '-', '\\':
		return c
	case 'A', 'B', 'E', 'F', 'N', 'R', 'T', 'V':
		p.f.Grey = append(p.f.Grey, "upper-case escape letter")
		return map[rune]rune{'A': '\a', 'B': '\b', 'E': 0x1B, 'F': '\f', 'N': '\n', 'R': '\r', 'T': '\t', 'V': '\v'}[c]
	}
	p.pos--
	p.fail("unknown escape \\%c", c)
	return 0
}

func (p *parser) literal() *ag.Expr {
	q := p.next()
	var runes []rune
	for {
		if p.eof() {
			p.fail("unterminated literal")
		}
		if p.peek() == q {
			p.next()
			break
		}
		c := p.char()
		if q == '"' && p.escaped && isIdentStart(c) && c != '_' {
			p.f.Grey = append(p.f.Grey, "letter written as an escape inside a case-insensitive literal")
		}
		runes = append(runes, c)
	}
	if len(runes) == 0 {
		p.fail("empty literal")
	}
	p.spacing()
	e := &ag.Expr{K: ag.Lit, Runes: runes, CI: q == '"'}
	if e.CI {
		for _, r := range runes {
			if r >= 128 && strings.ToLower(string(r)) != strings.ToUpper(string(r)) {
				p.f.Grey = append(p.f.Grey, "case-insensitive non-ASCII letter")
			}
		}
	}
	return e
}

// class reads a character class the way the documented grammar does: ordered choice between
// the [[ ]] form and the [ ] form, and inside each between "^ ranges" and "ranges" ('^' is then an
// ordinary character); a range is "char - char" whenever a character follows the dash (even ']').
func (p *parser) class() *ag.Expr {
	start, grey := p.pos, len(p.f.Grey)
	var firstErr *syntaxError
	try := func(ci, neg bool) (e *ag.Expr) {
		defer func() {
			if r := recover(); r != nil {
				se, ok := r.(*syntaxError)
				if !ok {
					panic(r)
				}
				if firstErr == nil {
					firstErr = se
				}
				p.pos, p.f.Grey, e = start, p.f.Grey[:grey], nil
			}
		}()
		return p.classBody(ci, neg)
	}
	var e *ag.Expr
	if p.has("[[") {
		if e = try(true, true); e == nil {
			e = try(true, false)
		}
	}
	if e == nil {
		if e = try(false, true); e == nil {
			e = try(false, false)
		}
	}
	if e == nil {
		panic(firstErr)
	}
	p.spacing()
	return e
}

func (p *parser) classBody(ci, neg bool) *ag.Expr {
	e := &ag.Expr{K: ag.Class, CI: ci, Neg: neg}
	closer := "]"
	if ci {
		closer = "]]"
		p.pos += 2
	} else {
		p.pos++
	}
	if neg && !p.eat("^") {
		p.fail("no '^'")
	}
	for !p.has(closer) {
		if p.eof() {
			p.fail("unterminated class")
		}
		lo := p.char()
		if e.CI && p.escaped && isIdentStart(lo) && lo != '_' {
			p.f.Grey = append(p.f.Grey, "letter written as an escape inside a case-insensitive class")
		}
		hi := lo
		if p.peek() == '-' {
			// "char - char" if a character can be read after the dash, else the dash is the next character
			save, esc, ng := p.pos, p.escaped, len(p.f.Grey)
			p.next()
			ok := func() (ok bool) {
				defer func() {
					if r := recover(); r != nil {
						if _, is := r.(*syntaxError); !is {
							panic(r)
						}
						ok = false
					}
				}()
				hi = p.char()
				return true
			}()
			if !ok {
				p.pos, p.escaped, hi, p.f.Grey = save, esc, lo, p.f.Grey[:ng]
			}
		}
		if lo > hi {
			p.f.Grey = append(p.f.Grey, "reversed range")
		}
		if e.CI && lo != hi {
			isL := func(r rune) bool { return (r >= 'a' && r <= 'z') || (r >= 'A' && r <= 'Z') }
			sameCase := (lo >= 'a' && hi <= 'z') || (lo >= 'A' && hi <= 'Z')
			if (isL(lo) || isL(hi)) && !sameCase {
				p.f.Grey = append(p.f.Grey, "mixed-case range in [[ ]]")
			}
		}
		if e.CI && (lo >= 128 || hi >= 128) {
			p.f.Grey = append(p.f.Grey, "case-insensitive non-ASCII class")
		}
		e.Items = append(e.Items, ag.Item{Lo: lo, Hi: hi})
	}
	if len(e.Items) == 0 {
		p.fail("empty class")
	}
	p.pos += len(closer)
	return e
}
