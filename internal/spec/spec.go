// Package spec holds the data exchanged between the orchestrator (pegmc) and the shard
// runners it builds.
package spec

import (
	"crypto/sha256"
	"encoding/hex"
	"fmt"
	"strconv"

	"verif/internal/ag"
)

// Variants are named by option letters: i = -inline, s = -switch, n = -noast; "" is plain.
var ASTVariants = []string{"", "i", "s", "is"}
var NoASTVariants = []string{"n", "ni", "ns", "nis"}
var AllVariants = []string{"", "i", "s", "is", "n", "ni", "ns", "nis"}

func VariantName(v string) string {
	if v == "" {
		return "plain"
	}
	return v
}

type VariantStatus struct {
	Name    string `json:"name"`
	Built   bool   `json:"built"`
	Differs bool   `json:"differs"` // generated code differs from the plain (resp. "n") variant beyond the header line
	Why     string `json:"why,omitempty"`
}

const (
	ModeBehaviour = "beh"     // compare everything with the reference interpreter
	ModeHostile   = "hostile" // arbitrary bytes: no panic, token bounds, verdict vs RI
	ModeHistory   = "hist"    // operation histories on one instance (C12)
)

type Item struct {
	Idx      int             `json:"idx"`
	Family   string          `json:"family"`
	G        *ag.Grammar     `json:"g"`
	Sigma    []string        `json:"sigma"` // input symbols (strings, possibly multi-byte or invalid UTF-8 as hex via Hex)
	Hex      bool            `json:"hex"`   // Sigma/Extra are hex-encoded byte strings
	MaxLen   int             `json:"maxlen"`
	Extra    []string        `json:"extra,omitempty"`
	Flags    []bool          `json:"flags"`
	Variants []VariantStatus `json:"variants"`
	Mode     string          `json:"mode"`
	Print    bool            `json:"print"` // also capture PrintSyntaxTree on stdout
	Entries  []string        `json:"entries,omitempty"` // entry rules to use (default: every rule)
	// history mode
	Depth int      `json:"depth,omitempty"`
	Sizes []int    `json:"sizes,omitempty"`
	Us    []string `json:"us,omitempty"`
	// NoTree: do not build and print the syntax tree in history steps (inputs with ~10^5 tokens)
	NoTree bool `json:"notree,omitempty"`
}

type Shard struct {
	Items    []*Item           `json:"items"`
	Known    map[string]string `json:"known"` // case id -> finding id
	Skip     map[string]bool   `json:"skip"`  // case keys to skip (crashed / hung on a previous attempt)
	Progress string            `json:"progress"`
	Result   string            `json:"result"`
}

type Mismatch struct {
	Prop    string `json:"prop"`
	Kind    string `json:"kind"`
	ID      string `json:"id"`
	Family  string `json:"family"`
	Grammar string `json:"grammar"`
	GID     string `json:"gid"`
	Variant string `json:"variant"`
	Entry   string `json:"entry"`
	Input   string `json:"input"` // Go-quoted
	NoMemo  bool   `json:"nomemo,omitempty"`
	Flag    bool   `json:"flag,omitempty"`
	Want    string `json:"want"`
	Got     string `json:"got"`
	History string `json:"history,omitempty"`
	// GJSON is the abstract grammar of the failing case (for replay)
	GJSON   string `json:"g_json,omitempty"`
	RawIn   string `json:"input_hex,omitempty"`
}

type Counter struct {
	Evals      int64    `json:"evals"`
	Nontrivial int64    `json:"nontrivial"`
	Samples    []string `json:"samples,omitempty"`
	States     int64    `json:"states,omitempty"`
	Trans      int64    `json:"transitions,omitempty"`
}

type Result struct {
	Counters   map[string]*Counter `json:"counters"`
	Unknown    []Mismatch          `json:"unknown"`       // mismatches not in a pinned list (capped per property)
	UnknownN   map[string]int64    `json:"unknown_n"`     // total per property
	KnownN     map[string]int64    `json:"known_n"`       // per finding id
	KnownEx    map[string]Mismatch `json:"known_example"` // one example per finding id
	Aborted    int64               `json:"aborted"`       // RI evaluations that hit the step budget / ill-formedness
	AbortedWhy map[string]int64    `json:"aborted_why"`
	Done       bool                `json:"done"`
}

// CaseID identifies one failing case independently of enumeration order.
func CaseID(prop, kind, grammar, variant, entry, input string, nomemo, flag bool, extra string) string {
	h := sha256.Sum256([]byte(fmt.Sprintf("%s|%s|%s|%s|%s|%s|%v|%v|%s", prop, kind, grammar, variant, entry, strconv.Quote(input), nomemo, flag, extra)))
	return hex.EncodeToString(h[:8])
}
