package engine

import (
	"bytes"
	"go/ast"
	"go/build"
	"go/format"
	"go/importer"
	"go/parser"
	"go/token"
	"go/types"
	"strings"
	"sync"
)

// Checker is the static gate of C08: the generated file must parse, type-check (which
// includes unused imports, labels and variables) and be in canonical gofmt form.
type Checker struct {
	mu    sync.Mutex
	cache map[string]*types.Package
	src   types.Importer
	fset  *token.FileSet
}

func NewChecker() *Checker {
	build.Default.CgoEnabled = false
	fset := token.NewFileSet()
	c := &Checker{cache: map[string]*types.Package{}, fset: fset}
	c.src = importer.ForCompiler(fset, "source", nil)
	for _, p := range []string{"fmt", "io", "os", "bytes", "slices", "strconv", "strings", "math", "sort", "unicode", "errors"} {
		_, _ = c.Import(p)
	}
	return c
}

func (c *Checker) Import(path string) (*types.Package, error) {
	c.mu.Lock()
	defer c.mu.Unlock()
	if p, ok := c.cache[path]; ok {
		return p, nil
	}
	p, err := c.src.Import(path)
	if err != nil {
		return nil, err
	}
	c.cache[path] = p
	return p, nil
}

type StaticResult struct {
	ParseErr  string
	TypeErrs  []string
	NotGofmt  bool
	FmtErr    string
	Imports   []string
}

func (s *StaticResult) OK() bool {
	return s.ParseErr == "" && len(s.TypeErrs) == 0 && !s.NotGofmt && s.FmtErr == ""
}

func (s *StaticResult) Summary() string {
	var parts []string
	if s.ParseErr != "" {
		parts = append(parts, "parse: "+s.ParseErr)
	}
	if len(s.TypeErrs) > 0 {
		parts = append(parts, "types: "+strings.Join(s.TypeErrs, "; "))
	}
	if s.FmtErr != "" {
		parts = append(parts, "gofmt error: "+s.FmtErr)
	}
	if s.NotGofmt {
		parts = append(parts, "not in canonical gofmt form")
	}
	return strings.Join(parts, " | ")
}

func (c *Checker) Check(name string, src []byte) *StaticResult {
	res := &StaticResult{}
	fset := token.NewFileSet()
	f, err := parser.ParseFile(fset, name, src, parser.ParseComments|parser.SkipObjectResolution)
	if err != nil {
		res.ParseErr = firstLine(err.Error())
		return res
	}
	for _, im := range f.Imports {
		res.Imports = append(res.Imports, im.Path.Value)
	}
	conf := types.Config{Importer: c, Error: func(err error) {
		if len(res.TypeErrs) < 5 {
			msg := err.Error()
			if i := strings.Index(msg, ": "); i >= 0 && strings.Contains(msg[:i], ":") {
				msg = msg[i+2:]
			}
			res.TypeErrs = append(res.TypeErrs, msg)
		}
	}}
	_, _ = conf.Check(f.Name.Name, fset, []*ast.File{f}, nil)
	formatted, err := format.Source(src)
	if err != nil {
		res.FmtErr = firstLine(err.Error())
	} else if !bytes.Equal(formatted, src) {
		res.NotGofmt = true
	}
	return res
}

func firstLine(s string) string {
	if i := strings.IndexByte(s, '\n'); i >= 0 {
		return s[:i]
	}
	return s
}
