// Package engine is the orchestration layer of engine A: it builds the generator worker from
// the current working tree of the repository, generates parsers for enumerated grammars, gates
// them statically, builds shard runners and supervises them.
package engine

import (
	"bufio"
	"bytes"
	"context"
	"crypto/sha256"
	"encoding/hex"
	"encoding/json"
	"fmt"
	"io"
	"io/fs"
	"os"
	"os/exec"
	"path/filepath"
	"regexp"
	"sort"
	"strings"
	"sync"
	"syscall"
	"time"
)

var (
	VerifDir = "/verif"
	RepoDir  = "/repo"
)

func init() {
	if v := os.Getenv("VERIF_REPO"); v != "" {
		RepoDir = v
	}
	if v := os.Getenv("VERIF_DIR"); v != "" {
		VerifDir = v
	}
}

func CacheDir() string { return filepath.Join(VerifDir, ".cache") }
func WorkDir() string  { return filepath.Join(VerifDir, "work") }

// GoEnv is the environment for every go command the framework runs.
func GoEnv() []string {
	env := []string{}
	for _, e := range os.Environ() {
		if strings.HasPrefix(e, "GOFLAGS=") || strings.HasPrefix(e, "GOPROXY=") || strings.HasPrefix(e, "GOCACHE=") ||
			strings.HasPrefix(e, "GOSUMDB=") || strings.HasPrefix(e, "GOTOOLCHAIN=") || strings.HasPrefix(e, "GOMAXPROCS=") {
			continue
		}
		env = append(env, e)
	}
	flags := "GOFLAGS=-mod=mod"
	if RepoDir != "/repo" {
		// checks pointed at another checkout (VERIF_REPO): same module, replace directive redirected
		alt := filepath.Join(CacheDir(), "alt-"+strings.ReplaceAll(strings.Trim(RepoDir, "/"), "/", "_")+".mod")
		if _, err := os.Stat(alt); err != nil {
			_ = os.MkdirAll(CacheDir(), 0o755)
			mod := "module verif\n\ngo 1.25\n\nrequire github.com/pointlander/peg v0.0.0\n\nreplace github.com/pointlander/peg => " + RepoDir + "\n"
			_ = os.WriteFile(alt, []byte(mod), 0o644)
			_ = os.WriteFile(strings.TrimSuffix(alt, ".mod")+".sum", nil, 0o644)
		}
		flags += " -modfile=" + alt
	}
	return append(env, flags, "GOPROXY=off", "GOCACHE="+filepath.Join(CacheDir(), "gocache"))
}

// RepoHash hashes the content of every source file of the repository's working tree.
func RepoHash() string {
	h := sha256.New()
	var files []string
	_ = filepath.WalkDir(RepoDir, func(p string, d fs.DirEntry, err error) error {
		if err != nil {
			return nil
		}
		if d.IsDir() {
			if d.Name() == ".git" {
				return filepath.SkipDir
			}
			return nil
		}
		switch filepath.Ext(p) {
		case ".go", ".tmpl", ".peg", ".mod", ".sum", ".bash", ".java":
			files = append(files, p)
		}
		return nil
	})
	sort.Strings(files)
	for _, f := range files {
		b, _ := os.ReadFile(f)
		rel, _ := filepath.Rel(RepoDir, f)
		fmt.Fprintf(h, "%s %d\n", rel, len(b))
		h.Write(b)
	}
	return hex.EncodeToString(h.Sum(nil))[:16]
}

// SelfHash hashes the running binary, so that any change to the framework invalidates caches.
func SelfHash() string {
	if os.Getenv("VERIF_DEV_NOSELF") != "" {
		return "dev"
	}
	exe, err := os.Executable()
	if err != nil {
		return "noexe"
	}
	b, err := os.ReadFile(exe)
	if err != nil {
		return "noexe"
	}
	h := sha256.Sum256(b)
	return hex.EncodeToString(h[:8])
}

// Lock takes an exclusive advisory lock (builders are serialised).
func Lock(name string) func() {
	_ = os.MkdirAll(CacheDir(), 0o755)
	f, err := os.OpenFile(filepath.Join(CacheDir(), name+".lock"), os.O_CREATE|os.O_RDWR, 0o644)
	if err != nil {
		return func() {}
	}
	_ = syscall.Flock(int(f.Fd()), syscall.LOCK_EX)
	return func() {
		_ = syscall.Flock(int(f.Fd()), syscall.LOCK_UN)
		f.Close()
	}
}

func runGo(dir string, args ...string) (string, error) {
	cmd := exec.Command("go", args...)
	cmd.Dir = dir
	cmd.Env = GoEnv()
	out, err := RunLocked(cmd)
	return string(out), err
}

// RunLocked runs a command that uses the dedicated build cache, holding the cache's advisory
// lock in shared mode (the trimmer takes it exclusively).
func RunLocked(cmd *exec.Cmd) ([]byte, error) {
	defer lockFile(syscall.LOCK_SH)()
	return cmd.CombinedOutput()
}

// ---------------------------------------------------------------- generator workers

// BuildGenlab builds the generator worker against the repository's current working tree.
func BuildGenlab(repoHash string) (string, error) {
	return BuildGenlabWith(repoHash, nil, "")
}

// BuildGenlabWith builds the generator worker around a given front-end source (nil = the
// checked-in peg.peg.go of the working tree); tag distinguishes the cached binaries.
func BuildGenlabWith(repoHash string, frontSrc []byte, tag string) (string, error) {
	if tag != "" {
		h := sha256.Sum256(frontSrc)
		repoHash += "-" + tag + "-" + hex.EncodeToString(h[:4])
	}
	srcFile := filepath.Join(VerifDir, "internal/genlab/main.go.txt")
	if sb, err := os.ReadFile(srcFile); err == nil {
		h := sha256.Sum256(sb)
		repoHash += "-" + hex.EncodeToString(h[:4])
	}
	bin := filepath.Join(CacheDir(), "genlab-"+repoHash)
	if _, err := os.Stat(bin); err == nil {
		return bin, nil
	}
	unlock := Lock("genlab")
	defer unlock()
	if _, err := os.Stat(bin); err == nil {
		return bin, nil
	}
	dir := filepath.Join(WorkDir(), "genlab-"+repoHash)
	_ = os.RemoveAll(dir)
	if err := os.MkdirAll(dir, 0o755); err != nil {
		return "", err
	}
	defer os.RemoveAll(dir)
	src, err := os.ReadFile(filepath.Join(VerifDir, "internal/genlab/main.go.txt"))
	if err != nil {
		return "", err
	}
	front := frontSrc
	if front == nil {
		if front, err = os.ReadFile(filepath.Join(RepoDir, "peg.peg.go")); err != nil {
			return "", err
		}
	}
	_ = os.WriteFile(filepath.Join(dir, "main.go"), src, 0o644)
	_ = os.WriteFile(filepath.Join(dir, "peg.peg.go"), front, 0o644)
	rel, _ := filepath.Rel(VerifDir, dir)
	out, err := runGo(VerifDir, "build", "-o", bin+".tmp", "./"+rel)
	if err != nil {
		return "", fmt.Errorf("building the generator from %s failed:\n%s", RepoDir, out)
	}
	return bin, os.Rename(bin+".tmp", bin)
}

type GenReq struct {
	ID       string   `json:"id"`
	Text     string   `json:"text"`
	Inline   bool     `json:"inline"`
	Switch   bool     `json:"switch"`
	NoAST    bool     `json:"noast"`
	Strict   bool     `json:"strict"`
	File     string   `json:"file,omitempty"`
	Args     []string `json:"args,omitempty"`
	WantTree bool     `json:"want_tree,omitempty"`
	NoGen    bool     `json:"no_gen,omitempty"`
	Repeat   int      `json:"repeat,omitempty"`
}

type GenResp struct {
	ID         string `json:"id"`
	ParseErr   string `json:"parse_err,omitempty"`
	ParsePanic string `json:"parse_panic,omitempty"`
	ExecPanic  string `json:"exec_panic,omitempty"`
	Tree       string `json:"tree,omitempty"`
	Out        string `json:"out,omitempty"`
	Stderr     string `json:"stderr,omitempty"`
	Err        string `json:"err,omitempty"`
	Panic      string `json:"panic,omitempty"`
	Differs    string `json:"differs,omitempty"`
	Crash      string `json:"crash,omitempty"` // the worker process died or hung on this request
}

func (r *GenResp) Failed() bool {
	return r.ParseErr != "" || r.ParsePanic != "" || r.ExecPanic != "" || r.Err != "" || r.Panic != "" || r.Crash != ""
}

func (r *GenResp) FailSummary() string {
	switch {
	case r.Crash != "":
		return "generator crashed: " + firstLine(r.Crash)
	case r.ParsePanic != "":
		return "front end panicked: " + r.ParsePanic
	case r.ParseErr != "":
		return "front end rejected: " + strings.TrimSpace(firstLine(strings.TrimSpace(r.ParseErr)))
	case r.ExecPanic != "":
		return "tree builder panicked: " + r.ExecPanic
	case r.Panic != "":
		return "Compile panicked: " + r.Panic
	case r.Err != "":
		return "Compile error: " + firstLine(r.Err)
	}
	return ""
}

type worker struct {
	bin    string
	cmd    *exec.Cmd
	in     io.WriteCloser
	out    *bufio.Reader
	stderr *bytes.Buffer
}

func (w *worker) start() error {
	w.cmd = exec.Command(w.bin)
	w.cmd.Env = append(os.Environ(), "GOMAXPROCS=2")
	var err error
	if w.in, err = w.cmd.StdinPipe(); err != nil {
		return err
	}
	so, err := w.cmd.StdoutPipe()
	if err != nil {
		return err
	}
	w.out = bufio.NewReaderSize(so, 1<<20)
	w.stderr = &bytes.Buffer{}
	w.cmd.Stderr = w.stderr
	return w.cmd.Start()
}

func (w *worker) stop() {
	if w.cmd != nil && w.cmd.Process != nil {
		_ = w.in.Close()
		_ = w.cmd.Process.Kill()
		_ = w.cmd.Wait()
	}
	w.cmd = nil
}

func (w *worker) do(req *GenReq, timeout time.Duration) GenResp {
	if w.cmd == nil {
		if err := w.start(); err != nil {
			return GenResp{ID: req.ID, Crash: "cannot start worker: " + err.Error()}
		}
	}
	b, _ := json.Marshal(req)
	b = append(b, '\n')
	type res struct {
		line []byte
		err  error
	}
	ch := make(chan res, 1)
	go func() {
		if _, err := w.in.Write(b); err != nil {
			ch <- res{nil, err}
			return
		}
		line, err := w.out.ReadBytes('\n')
		ch <- res{line, err}
	}()
	select {
	case r := <-ch:
		if r.err != nil {
			_ = w.cmd.Wait()
			msg := tail(w.stderr.String(), 1500)
			w.cmd = nil
			return GenResp{ID: req.ID, Crash: "worker died: " + crashKind(msg)}
		}
		var resp GenResp
		if err := json.Unmarshal(r.line, &resp); err != nil {
			w.stop()
			return GenResp{ID: req.ID, Crash: "bad worker response: " + err.Error()}
		}
		return resp
	case <-time.After(timeout):
		w.stop()
		return GenResp{ID: req.ID, Crash: fmt.Sprintf("worker did not answer within %v (hang)", timeout)}
	}
}

var addrRe = regexp.MustCompile(`0x[0-9a-f]+`)

// crashKind reduces a Go crash dump to its first informative lines, without addresses.
func crashKind(s string) string {
	var keep []string
	for _, ln := range strings.Split(s, "\n") {
		if strings.HasPrefix(ln, "panic:") || strings.HasPrefix(ln, "fatal error:") || strings.HasPrefix(ln, "runtime:") || strings.HasPrefix(ln, "[signal") {
			keep = append(keep, addrRe.ReplaceAllString(ln, "0x?"))
		}
		if len(keep) >= 3 {
			break
		}
	}
	if len(keep) == 0 {
		return tail(s, 300)
	}
	return strings.Join(keep, " / ")
}

func tail(s string, n int) string {
	if len(s) > n {
		return s[len(s)-n:]
	}
	return s
}

// Pool is a pool of generator worker processes.
type Pool struct {
	bin     string
	n       int
	Timeout time.Duration
}

func NewPool(bin string, n int) *Pool { return &Pool{bin: bin, n: n, Timeout: 60 * time.Second} }

// Generate runs all requests, in parallel, and returns the responses in request order.
func (p *Pool) Generate(reqs []GenReq) []GenResp {
	resps := make([]GenResp, len(reqs))
	var wg sync.WaitGroup
	next := make(chan int)
	n := p.n
	if n > len(reqs) {
		n = len(reqs)
	}
	for i := 0; i < n; i++ {
		wg.Add(1)
		go func() {
			defer wg.Done()
			w := &worker{bin: p.bin}
			defer w.stop()
			for idx := range next {
				resps[idx] = w.do(&reqs[idx], p.Timeout)
			}
		}()
	}
	for i := range reqs {
		next <- i
	}
	close(next)
	wg.Wait()
	return resps
}

// ---------------------------------------------------------------- running shard binaries

type ShardRun struct {
	Crashes []ShardCrash
}

type ShardCrash struct {
	Key  string
	Kind string // "crash" or "hang"
	Msg  string
}

// RunSupervised runs bin on the shard file; on a crash or a hang it records the case that was
// running (from the progress file), adds it to the skip list and restarts.
func RunSupervised(bin, shardFile string, rewrite func(skip map[string]bool) error, progress string, limit time.Duration) (crashes []ShardCrash, err error) {
	skip := map[string]bool{}
	for attempt := 0; attempt < 40; attempt++ {
		ctx, cancel := context.WithTimeout(context.Background(), limit)
		cmd := exec.CommandContext(ctx, bin, shardFile)
		var stderr bytes.Buffer
		cmd.Stderr = &stderr
		cmd.Stdout = io.Discard
		cmd.Env = append(os.Environ(), "GOMAXPROCS=2")
		runErr := cmd.Run()
		timedOut := ctx.Err() != nil
		cancel()
		if runErr == nil {
			return crashes, nil
		}
		pb, _ := os.ReadFile(progress)
		key := strings.TrimSpace(string(pb))
		if key == "" || skip[key] {
			return crashes, fmt.Errorf("shard runner failed without progress information: %v\n%s", runErr, tail(stderr.String(), 2000))
		}
		c := ShardCrash{Key: key, Kind: "crash", Msg: crashKind(stderr.String())}
		if timedOut {
			c.Kind, c.Msg = "hang", fmt.Sprintf("Parse did not return within %v", limit)
		}
		crashes = append(crashes, c)
		skip[key] = true
		if err := rewrite(skip); err != nil {
			return crashes, err
		}
	}
	return crashes, fmt.Errorf("too many crashes in one shard")
}

// GoEnvPlain is the go environment for commands run inside a checkout of the repository itself
// (its own module): offline, dedicated build cache, no module redirection.
func GoEnvPlain() []string {
	env := []string{}
	for _, e := range os.Environ() {
		if strings.HasPrefix(e, "GOFLAGS=") || strings.HasPrefix(e, "GOPROXY=") || strings.HasPrefix(e, "GOCACHE=") ||
			strings.HasPrefix(e, "GOSUMDB=") || strings.HasPrefix(e, "GOTOOLCHAIN=") {
			continue
		}
		env = append(env, e)
	}
	return append(env, "GOFLAGS=-mod=mod", "GOPROXY=off", "GOCACHE="+filepath.Join(CacheDir(), "gocache"))
}


// MemLimited returns a command that runs bin with its address space capped at gb GiB, so that a
// harness whose exploration runs away (for instance on a changed tree that spins) fails by itself
// instead of exhausting the machine. Not for -race binaries (the race runtime reserves terabytes).
func MemLimited(gb int, bin string, args ...string) *exec.Cmd {
	script := fmt.Sprintf(`ulimit -v %d; exec "$0" "$@"`, gb<<20)
	return exec.Command("/bin/sh", append([]string{"-c", script, bin}, args...)...)
}
