package runner

import (
	"encoding/hex"
	"encoding/json"
	"fmt"
	"os"
	"runtime/debug"
	"strconv"

	"verif/internal/ag"
	"verif/internal/obs"
	"verif/internal/ri"
	"verif/internal/spec"
)

// ShippedSpec describes one shipped grammar, compiled under the four AST option sets, and the
// inputs (samples and their single-position edits) to run through all of them.
type ShippedSpec struct {
	Name     string            `json:"name"`
	G        *ag.Grammar       `json:"g"`
	Inputs   []string          `json:"inputs"` // hex
	Labels   []string          `json:"labels"`
	RIEvery  int               `json:"ri_every"`
	Known    map[string]string `json:"known"`
	Progress string            `json:"progress"`
	Result   string            `json:"result"`
	Skip     map[string]bool   `json:"skip"`
}

type ShippedProbe func(input string) obs.Obs

// MainShipped: C13 (no crash, offsets within the rune sequence, tokens = reference derivation) and
// C17 (parsers generated under the option combinations agree) on the shipped grammars.
func MainShipped(probes map[string]ShippedProbe) {
	debug.SetMaxStack(512 << 20)
	b, err := os.ReadFile(os.Args[1])
	if err != nil {
		panic(err)
	}
	var sp ShippedSpec
	if err := json.Unmarshal(b, &sp); err != nil {
		panic(err)
	}
	r := &Runner{sh: &spec.Shard{Known: sp.Known, Skip: sp.Skip}, seen: map[string]map[string]bool{}, capN: 100}
	r.res = &spec.Result{Counters: map[string]*spec.Counter{}, UnknownN: map[string]int64{}, KnownN: map[string]int64{}, KnownEx: map[string]spec.Mismatch{}, AbortedWhy: map[string]int64{}}
	if sp.Progress != "" {
		r.prog, _ = os.OpenFile(sp.Progress, os.O_RDWR|os.O_CREATE|os.O_TRUNC, 0o644)
	}
	it := &spec.Item{Family: "SHIPPED", G: &ag.Grammar{ID: sp.Name}}
	interp := ri.New(sp.G)
	interp.Packrat = true
	interp.MaxSteps = 20000000
	first := sp.G.Rules[0].Name
	for k, hx := range sp.Inputs {
		raw, _ := hex.DecodeString(hx)
		in := string(raw)
		key := fmt.Sprintf("%d|%s", k, sp.Labels[k])
		if sp.Skip[key] {
			continue
		}
		r.progress(key)
		w := []rune(in)
		var plain obs.Obs
		for _, v := range []string{"", "i", "s", "is"} {
			p, ok := probes[v]
			if !ok {
				continue
			}
			o := p(in)
			c := &caseCtx{it, sp.Name + " (shipped grammar)", v, "", in, false, false}
			r.eval("C13", true, key+v, func() string {
				return fmt.Sprintf("%s [%s] %s (%d bytes): accepted=%v", sp.Name, spec.VariantName(v), sp.Labels[k], len(in), o.OK)
			})
			if o.Panic != "" {
				r.mismatch(c, "C13", "panic", "nil or a parse error", o.Panic, sp.Labels[k])
				continue
			}
			if o.OK {
				for _, t := range o.Toks {
					if t.B < 0 || t.B > t.E || t.E > len(w) {
						r.mismatch(c, "C13", "token-bounds", fmt.Sprintf("0<=b<=e<=%d", len(w)), fmt.Sprint(t), sp.Labels[k])
						break
					}
				}
			} else if o.ErrTok.B < 0 || o.ErrTok.B > o.ErrTok.E || o.ErrTok.E > len(w) || o.ErrPanic != "" {
				r.mismatch(c, "C13", "error", "an error token within the input and a message", fmt.Sprint(o.ErrTok, " ", o.ErrPanic), sp.Labels[k])
			}
			if v == "" {
				plain = o
				if sp.RIEvery > 0 && k%sp.RIEvery == 0 {
					ref := interp.Parse(first, w)
					if ref.Abort != "" {
						r.res.Aborted++
						r.res.AbortedWhy[ref.Abort]++
					} else {
						r.eval("C17", true, key+"|ri", nil)
						if ref.OK != o.OK {
							r.mismatch(c, "C13", "verdict-vs-model", strconv.FormatBool(ref.OK), strconv.FormatBool(o.OK), sp.Labels[k])
						} else if o.OK && normActions(tokStr(o.Toks)) != normActions(riTokStr(ref.Toks)) {
							r.mismatch(c, "C13", "tokens-vs-model", clip(riTokStr(ref.Toks)), clip(tokStr(o.Toks)), sp.Labels[k])
						}
					}
				}
				continue
			}
			r.eval("C17", true, key+v, func() string {
				return fmt.Sprintf("%s %s: parsers generated with and without %s agree (accepted=%v, %d tokens)", sp.Name, sp.Labels[k], spec.VariantName(v), o.OK, len(o.Toks))
			})
			if plain.Panic != "" {
				continue
			}
			if o.OK != plain.OK {
				r.mismatch(c, "C17", "option-sets-disagree", fmt.Sprint("plain parser: ", plain.OK), strconv.FormatBool(o.OK), sp.Labels[k])
			} else if o.OK && tokStr(o.Toks) != tokStr(plain.Toks) {
				r.mismatch(c, "C17", "option-sets-disagree-tokens", clip(tokStr(plain.Toks)), clip(tokStr(o.Toks)), sp.Labels[k])
			} else if !o.OK && !hasSwitch(v) && o.ErrTok != plain.ErrTok {
				r.mismatch(c, "C17", "option-sets-disagree-error", fmt.Sprint(plain.ErrTok), fmt.Sprint(o.ErrTok), sp.Labels[k])
			}
		}
	}
	r.res.Done = true
	out, _ := json.Marshal(r.res)
	if err := os.WriteFile(sp.Result, out, 0o644); err != nil {
		panic(err)
	}
}
