package runner

import "verif/internal/spec"

func (r *Runner) runHistory(it *spec.Item) {}
