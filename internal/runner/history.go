package runner

import (
	"encoding/json"
	"fmt"
	"strconv"
	"strings"

	"verif/internal/ag"
	"verif/internal/obs"
	"verif/internal/ri"
	"verif/internal/spec"
)

// runHistory explores every history of at most Depth inputs (over the item's input menu) on one
// long-lived parser instance, for every (U, Size, memo) configuration, and compares each step
// with a fresh instance given that input alone (property C12).
func (r *Runner) runHistory(it *spec.Item) {
	g := it.G
	gshow := ag.Show(g)
	interp := ri.New(g)
	interp.MaxSteps = 5000000
	menu := decodeSyms(it, it.Extra)
	// the step alphabet: every menu input from the default entry (Parse() without argument), plus,
	// for each rule named in Entries, one step that passes that rule explicitly
	type step struct{ in, rule string }
	var steps []step
	for _, in := range menu {
		steps = append(steps, step{in, ""})
	}
	for i, rn := range it.Entries {
		if len(menu) > 1 {
			steps = append(steps, step{menu[1+i%(len(menu)-1)], rn})
		}
	}
	skey := func(st step) string { return st.rule + "\x00" + st.in }
	us := it.Us
	if len(us) == 0 {
		us = []string{"uint32"}
	}
	sizes := it.Sizes
	if len(sizes) == 0 {
		sizes = []int{-1}
	}
	want := obs.WantExec | obs.WantAST | obs.WantErr
	if it.NoTree {
		want = obs.WantExec | obs.WantErr
	}
	ser := func(o obs.Obs) string {
		b, _ := json.Marshal(o)
		return string(b)
	}
	show := func(s string) string {
		if len(s) > 24 {
			return fmt.Sprintf("%q…(%d bytes)", s[:12], len(s))
		}
		return strconv.Quote(s)
	}
	for _, v := range it.Variants {
		if !v.Built {
			continue
		}
		pkg, ok := r.table[fmt.Sprintf("%d/%s", it.Idx, v.Name)]
		if !ok || !pkg.HasAST {
			continue
		}
		// reference observation: fresh uint32 instance without Size
		base := map[string]string{}
		for _, in := range menu {
			o := pkg.New("uint32", -1, false).Step(obs.Req{Input: in, Want: want})
			base[in] = ser(o)
			if len(in) > 1000 {
				// very long inputs (C13): no panic, offsets within the rune sequence
				c := &caseCtx{it, gshow, v.Name, "", in[:8] + "…", false, false}
				r.eval("C13", true, fmt.Sprintf("%d|long|%s|%d", it.Idx, v.Name, len(in)), func() string {
					return fmt.Sprintf("%s [%s] on an input of %d runes: accepted=%v", gshow, spec.VariantName(v.Name), len([]rune(in)), o.OK)
				})
				if o.Panic != "" {
					r.mismatch(c, "C13", "panic-long-input", "nil or a parse error", fmt.Sprintf("%d runes: %s", len([]rune(in)), o.Panic), fmt.Sprint(len(in)))
				}
				for _, t := range o.Toks {
					if t.B < 0 || t.B > t.E || t.E > len([]rune(in)) {
						r.mismatch(c, "C13", "token-bounds-long-input", "offsets within the input", fmt.Sprint(t), fmt.Sprint(len(in)))
						break
					}
				}
			}
			// the message of a failure names line, column and text of the error token, however long it is (C11)
			if w := []rune(in); !o.OK && o.Panic == "" && o.ErrPanic == "" && o.ErrTok.B >= 0 && o.ErrTok.B < o.ErrTok.E && o.ErrTok.E <= len(w) && len(w) <= 100000 {
				c := &caseCtx{it, gshow, v.Name, "", show(in), false, false}
				r.eval("C11", o.ErrTok.E-o.ErrTok.B > 32, fmt.Sprintf("%d|histmsg|%s|%s", it.Idx, v.Name, show(in)), nil)
				if why := checkMessage(o.ErrMsg, o.ErrTok, w); why != "" {
					r.mismatch(c, "C11", "message", why, strconv.Quote(clipStr(o.ErrMsg, 300)), why)
				}
			}
			// tie the reference observation to the reference interpreter (short inputs only)
			if len(in) <= 64 {
				ref := interp.Parse(g.Rules[0].Name, []rune(in))
				c := &caseCtx{it, gshow, v.Name, "", in, false, false}
				if ref.Abort == "" && o.Panic == "" {
					if o.OK != ref.OK {
						r.mismatch(c, "C12", "fresh-verdict-vs-model", fmt.Sprint(ref.OK), fmt.Sprint(o.OK), "")
					} else if o.OK && normActions(tokStr(o.Toks)) != normActions(riTokStr(ref.Toks)) {
						r.mismatch(c, "C12", "fresh-tokens-vs-model", riTokStr(ref.Toks), tokStr(o.Toks), "")
					}
				}
			}
		}
		for _, u := range us {
			for _, size := range sizes {
				for memo := 0; memo < 2; memo++ {
					cfg := fmt.Sprintf("U=%s Size=%d nomemo=%v", u, size, memo == 1)
					// fresh observations in this configuration must equal the reference configuration
					fresh := map[string]string{}
					for _, st := range steps {
						in := st.in
						key := fmt.Sprintf("%d|hist|%s|%s|%s%s", it.Idx, v.Name, cfg, st.rule, show(in))
						r.progress(key)
						o := pkg.New(u, size, memo == 1).Step(obs.Req{Input: in, Rule: st.rule, Want: want})
						fresh[skey(st)] = ser(o)
						r.eval("C12", u != "uint32" || size != -1, key, nil)
						if st.rule == "" && fresh[skey(st)] != base[in] {
							c := &caseCtx{it, gshow, v.Name, "", in, memo == 1, false}
							r.mismatch(c, "C12", "configuration", "as with U=uint32, Size unset: "+base[in], cfg+": "+fresh[skey(st)], cfg)
						}
					}
					// all histories of length 1..Depth
					d := it.Depth
					idx := make([]int, d)
					var nodes, nsteps int64
					var walk func(level int, inst obs.Inst, prefix []string)
					// histories are enumerated as a tree; each leaf path is executed on its own instance
					var leaves func(level int)
					leaves = func(level int) {
						if level == d {
							inst := pkg.New(u, size, memo == 1)
							hist := make([]string, 0, d)
							for k := 0; k < d; k++ {
								st := steps[idx[k]]
								in := st.in
								if st.rule != "" {
									hist = append(hist, st.rule+":"+show(in))
								} else {
									hist = append(hist, show(in))
								}
								o := inst.Step(obs.Req{Input: in, Rule: st.rule, Want: want})
								nsteps++
								// C13 on a reused instance: whatever is reported indexes THIS input's rune sequence
								if nr := len([]rune(in)); o.Panic != "" || o.ErrPanic != "" || o.ErrTok.E > nr || (len(o.Toks) > 0 && o.Toks[len(o.Toks)-1].E > nr) {
									c := &caseCtx{it, gshow, v.Name, "", in, memo == 1, false}
									r.eval("C13", true, fmt.Sprintf("%d|reuse|%s|%s", it.Idx, v.Name, show(in)), nil)
									r.mismatch(c, "C13", "reused-instance-offsets", fmt.Sprintf("no panic, offsets within the %d runes of this input", nr), fmt.Sprintf("after history %s: panic=%q error-panic=%q error token %v", strings.Join(hist, " -> "), o.Panic, o.ErrPanic, o.ErrTok), cfg)
								}
								if got := ser(o); got != fresh[skey(st)] {
									c := &caseCtx{it, gshow, v.Name, st.rule, in, memo == 1, false}
									hs := strings.Join(hist, " -> ")
									r.mismatch(c, "C12", "history", "fresh parser on "+show(in)+": "+fresh[skey(st)], "after history "+hs+": "+got, cfg+"|"+hs)
									if memo == 0 {
										// is it the memo table that makes the difference? the same history without memoisation
										inst2 := pkg.New(u, size, true)
										var o2 obs.Obs
										for j := 0; j <= k; j++ {
											o2 = inst2.Step(obs.Req{Input: steps[idx[j]].in, Rule: steps[idx[j]].rule, Want: want})
										}
										if ser(o2) == fresh[skey(st)] {
											r.eval("C06", true, fmt.Sprintf("%d|hist-memo|%s|%s", it.Idx, v.Name, hs), nil)
											r.mismatch(c, "C06", "memo-visible-on-reused-instance", "as with DisableMemoize after the same history: "+fresh[skey(st)], "with memoisation, after history "+hs+": "+got, cfg+"|"+hs)
										}
									}
									return // later steps of this history run on a polluted instance
								}
							}
							return
						}
						for i := range steps {
							idx[level] = i
							nodes++
							leaves(level + 1)
						}
					}
					_ = walk
					if d > 0 {
						r.progress(fmt.Sprintf("%d|hist|%s|%s|histories", it.Idx, v.Name, cfg))
						leaves(0)
					}
					// long histories: x, then k times the shortest input, then z - for every x and z of the
					// menu and k around 256 (thorough: also around 65536): per-instance counters that wrap
					if memo == 0 && d > 0 && len(menu) > 1 && !it.NoTree && (size == sizes[0] || u == us[0]) && len([]rune(menu[len(menu)-1])) < 1000 {
						ks := []int{255, 256, 257}
						if it.Depth >= 4 && u == us[0] && size == sizes[0] {
							ks = append(ks, 511, 512, 65535, 65536)
						}
						filler := menu[0]
						for _, x := range menu {
							for _, z := range menu {
								if len(x) > 1000 || len(z) > 1000 {
									continue
								}
								for _, k := range ks {
									inst := pkg.New(u, size, false)
									inst.Step(obs.Req{Input: x, Want: want})
									for j := 0; j < k-1; j++ {
										inst.Step(obs.Req{Input: filler})
									}
									o := inst.Step(obs.Req{Input: z, Want: want})
									nsteps += int64(k + 1)
									nodes++
									if got := ser(o); got != fresh[skey(step{z, ""})] {
										c := &caseCtx{it, gshow, v.Name, "", z, false, false}
										hs := fmt.Sprintf("%s -> %d x %s -> %s", show(x), k-1, show(filler), show(z))
										r.mismatch(c, "C12", "long-history", "fresh parser on "+show(z)+": "+fresh[skey(step{z, ""})], "after history "+hs+": "+got, cfg+"|"+hs)
									}
								}
							}
						}
					}
					c := r.counter("C12")
					c.States += nodes
					c.Trans += nsteps
					if len(c.Samples) < 4 && d > 0 {
						c.Samples = append(c.Samples, fmt.Sprintf("%s [%s] %s: all %d histories of length %d over menu %v plus %d steps with an explicit entry rule %v (%d steps), each step equal to a fresh parser", gshow, spec.VariantName(v.Name), cfg, pow(len(steps), d), d, showAll(menu, show), len(steps)-len(menu), it.Entries, nsteps))
					}
				}
			}
		}
	}
}

func pow(b, e int) int {
	r := 1
	for i := 0; i < e; i++ {
		r *= b
	}
	return r
}

func showAll(ss []string, f func(string) string) []string {
	out := make([]string, len(ss))
	for i, s := range ss {
		out[i] = f(s)
	}
	return out
}


func clipStr(s string, n int) string {
	if len(s) > n {
		return s[:n] + "…"
	}
	return s
}
