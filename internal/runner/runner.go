// Package runner is linked into every shard binary. It enumerates the cases of the shard's
// items, evaluates each with the reference interpreter and with the compiled parsers, and
// records disagreements per property.
package runner

import (
	"encoding/hex"
	"encoding/json"
	"fmt"
	"os"
	"regexp"
	"runtime/debug"
	"strconv"
	"strings"

	"verif/internal/ag"
	"verif/internal/obs"
	"verif/internal/ri"
	"verif/internal/spec"
)

type Runner struct {
	table map[string]obs.Pkg
	sh    *spec.Shard
	res   *spec.Result
	prog  *os.File
	seen  map[string]map[string]bool // prop -> distinct nontrivial keys
	capN  int
}

func Main(table map[string]obs.Pkg) {
	debug.SetMaxStack(256 << 20)
	if len(os.Args) < 2 {
		fmt.Fprintln(os.Stderr, "usage: shard <shard.json>")
		os.Exit(2)
	}
	b, err := os.ReadFile(os.Args[1])
	if err != nil {
		panic(err)
	}
	var sh spec.Shard
	if err := json.Unmarshal(b, &sh); err != nil {
		panic(err)
	}
	r := &Runner{table: table, sh: &sh, seen: map[string]map[string]bool{}, capN: 300}
	r.res = &spec.Result{Counters: map[string]*spec.Counter{}, UnknownN: map[string]int64{}, KnownN: map[string]int64{}, KnownEx: map[string]spec.Mismatch{}, AbortedWhy: map[string]int64{}}
	if sh.Progress != "" {
		r.prog, _ = os.OpenFile(sh.Progress, os.O_RDWR|os.O_CREATE|os.O_TRUNC, 0o644)
	}
	for _, it := range sh.Items {
		switch it.Mode {
		case spec.ModeBehaviour, spec.ModeHostile:
			r.runItem(it)
		case spec.ModeHistory:
			r.runHistory(it)
		}
	}
	r.res.Done = true
	out, _ := json.Marshal(r.res)
	if err := os.WriteFile(sh.Result, out, 0o644); err != nil {
		panic(err)
	}
}

func (r *Runner) progress(key string) {
	if r.prog == nil {
		return
	}
	var rec [512]byte
	for i := range rec {
		rec[i] = ' '
	}
	copy(rec[:], key)
	rec[511] = '\n'
	_, _ = r.prog.WriteAt(rec[:], 0)
}

func (r *Runner) counter(prop string) *spec.Counter {
	c := r.res.Counters[prop]
	if c == nil {
		c = &spec.Counter{}
		r.res.Counters[prop] = c
	}
	return c
}

func (r *Runner) eval(prop string, nontrivial bool, key string, sample func() string) {
	c := r.counter(prop)
	c.Evals++
	if nontrivial {
		m := r.seen[prop]
		if m == nil {
			m = map[string]bool{}
			r.seen[prop] = m
		}
		if !m[key] {
			m[key] = true
			c.Nontrivial++
			if len(c.Samples) < 3 && sample != nil {
				c.Samples = append(c.Samples, sample())
			}
		}
	}
}

type caseCtx struct {
	it      *spec.Item
	gshow   string
	variant string
	entry   string
	input   string
	nomemo  bool
	flag    bool
}

func (r *Runner) mismatch(c *caseCtx, prop, kind, want, got string, idExtra string) {
	id := spec.CaseID(prop, kind, c.gshow, c.variant, c.entry, c.input, c.nomemo, c.flag, idExtra)
	m := spec.Mismatch{Prop: prop, Kind: kind, ID: id, Family: c.it.Family, Grammar: c.gshow, GID: c.it.G.ID,
		Variant: spec.VariantName(c.variant), Entry: c.entry, Input: strconv.Quote(c.input), NoMemo: c.nomemo, Flag: c.flag, Want: clip(want), Got: clip(got)}
	if f, ok := r.sh.Known[id]; ok {
		r.res.KnownN[f]++
		if _, have := r.res.KnownEx[f]; !have {
			r.res.KnownEx[f] = m
		}
		return
	}
	r.res.UnknownN[prop]++
	if r.res.UnknownN[prop] <= int64(r.capN) {
		if gb, err := json.Marshal(c.it.G); err == nil && len(gb) < 20000 {
			m.GJSON = string(gb)
		}
		m.RawIn = hex.EncodeToString([]byte(c.input))
		r.res.Unknown = append(r.res.Unknown, m)
	}
}

func clip(s string) string {
	if len(s) > 600 {
		return s[:600] + "…"
	}
	return s
}

func decodeSyms(it *spec.Item, ss []string) []string {
	if !it.Hex {
		return ss
	}
	out := make([]string, len(ss))
	for i, s := range ss {
		b, err := hex.DecodeString(s)
		if err != nil {
			panic(err)
		}
		out[i] = string(b)
	}
	return out
}

// Inputs enumerates all strings of at most maxLen symbols over sigma, shortest first,
// followed by the extra inputs.
func Inputs(sigma []string, maxLen int, extra []string) []string {
	out := []string{""}
	level := []string{""}
	for l := 1; l <= maxLen; l++ {
		var next []string
		for _, p := range level {
			for _, s := range sigma {
				next = append(next, p+s)
			}
		}
		out = append(out, next...)
		level = next
	}
	seen := map[string]bool{}
	for _, s := range out {
		seen[s] = true
	}
	for _, e := range extra {
		if !seen[e] {
			seen[e] = true
			out = append(out, e)
		}
	}
	return out
}

func tokStr(ts []obs.Tok) string {
	var sb strings.Builder
	for i, t := range ts {
		if i > 0 {
			sb.WriteByte(' ')
		}
		fmt.Fprintf(&sb, "%s[%d,%d]", t.Name, t.B, t.E)
	}
	return sb.String()
}

func riTokStr(ts []ri.Tok) string {
	var sb strings.Builder
	for i, t := range ts {
		if i > 0 {
			sb.WriteByte(' ')
		}
		fmt.Fprintf(&sb, "%s[%d,%d]", t.Name, t.B, t.E)
	}
	return sb.String()
}

var actionRe = regexp.MustCompile(`Action\d+\[`)

// normActions removes what the properties do not fix from a token list: the numbering of action
// tokens and the name the implementation gives to <...> capture tokens.
func normActions(s string) string {
	s = actionRe.ReplaceAllString(s, "Action[")
	return strings.ReplaceAll(s, "PegText[", "Capture[")
}

func execStr(evs []ri.Ev) []string {
	out := []string{}
	for _, e := range evs {
		if e.Kind == 'A' {
			out = append(out, fmt.Sprintf("%d|%s|%d|%d", e.N, e.Text, e.Begin, e.End))
		}
	}
	return out
}

func eagerStr(evs []ri.Ev, withText bool) (acts, sides []string) {
	acts, sides = []string{}, []string{}
	for _, e := range evs {
		if e.Kind == 'A' {
			if withText {
				acts = append(acts, fmt.Sprintf("%d|%s", e.N, e.Text))
			} else {
				acts = append(acts, fmt.Sprintf("%d|", e.N))
			}
		} else {
			sides = append(sides, strconv.Itoa(e.N))
		}
	}
	return
}

func join(ss []string) string { return strings.Join(ss, " ; ") }

func hasSwitch(v string) bool { return strings.Contains(v, "s") }

func userRules(g *ag.Grammar) []string {
	var out []string
	for _, rl := range g.Rules {
		out = append(out, rl.Name)
	}
	return out
}

func (r *Runner) runItem(it *spec.Item) {
	g := it.G
	gshow := ag.Show(g)
	interp := ri.New(g)
	hasCap := g.Has(ag.Cap)
	inputs := Inputs(decodeSyms(it, it.Sigma), it.MaxLen, decodeSyms(it, it.Extra))
	entries := append([]string{""}, userRules(g)...)
	if len(it.Entries) > 0 {
		entries = append([]string{""}, it.Entries...)
	}
	flags := it.Flags
	if len(flags) == 0 {
		flags = []bool{false}
	}
	hostile := it.Mode == spec.ModeHostile
	want := obs.WantExec | obs.WantAST | obs.WantErr
	if it.Print {
		want |= obs.WantPrint
	}
	for _, flag := range flags {
		interp.Flag = flag
		for _, in := range inputs {
			w := []rune(in)
			for _, entry := range entries {
				key := fmt.Sprintf("%d|%s|%s|%v", it.Idx, strconv.Quote(in), entry, flag)
				if r.sh.Skip[key] {
					continue
				}
				r.progress(key)
				name := entry
				if name == "" {
					name = g.Rules[0].Name
				}
				ref := interp.Parse(name, w)
				if ref.Abort != "" {
					r.res.Aborted++
					r.res.AbortedWhy[ref.Abort]++
					continue
				}
				r.compareCase(it, gshow, hasCap, hostile, want, ref, w, in, entry, flag, key)
			}
		}
	}
}

func (r *Runner) compareCase(it *spec.Item, gshow string, hasCap, hostile bool, want int, ref *ri.Result, w []rune, in, entry string, flag bool, key string) {
	sample := func() string {
		v := "reject"
		if ref.OK {
			v = fmt.Sprintf("accept end=%d tokens=%s", ref.End, riTokStr(ref.Toks))
		} else {
			v = "reject errtok=" + ref.ErrTok.String()
		}
		return fmt.Sprintf("%s  entry=%q input=%s  RI: %s", gshow, entry, strconv.Quote(in), v)
	}
	var plain [2]*obs.Obs
	var plainN *obs.Obs
	for _, v := range it.Variants {
		if !v.Built {
			continue
		}
		pkg, ok := r.table[fmt.Sprintf("%d/%s", it.Idx, v.Name)]
		if !ok {
			continue
		}
		isPlain := v.Name == ""
		if pkg.HasAST {
			var os2 [2]*obs.Obs
			for m := 0; m < 2; m++ {
				c := &caseCtx{it, gshow, v.Name, entry, in, m == 1, flag}
				o := pkg.New("uint32", -1, m == 1).Step(obs.Req{Input: in, Rule: entry, Flag: flag, Want: want})
				os2[m] = &o
				if isPlain {
					plain[m] = &o
				}
				r.checkAST(c, v, &o, ref, w, hostile, isPlain, plain[m], key, sample)
			}
			// C06: memoisation invisible
			a, b := os2[0], os2[1]
			if !(a.NilRule || b.NilRule) {
				c := &caseCtx{it, gshow, v.Name, entry, in, false, flag}
				r.eval("C06", ref.Revisits > 0, key+"|"+v.Name, sample)
				switch {
				case a.Panic != b.Panic:
					r.mismatch(c, "C06", "panic", "nomemo: "+b.Panic, "memo: "+a.Panic, "")
				case a.OK != b.OK:
					r.mismatch(c, "C06", "verdict", fmt.Sprint("nomemo: ", b.OK), fmt.Sprint("memo: ", a.OK), "")
				case a.OK && tokStr(a.Toks) != tokStr(b.Toks):
					r.mismatch(c, "C06", "tokens", "nomemo: "+tokStr(b.Toks), "memo: "+tokStr(a.Toks), "")
				case !a.OK && a.Panic == "" && a.ErrTok != b.ErrTok:
					r.mismatch(c, "C06", "errtok", fmt.Sprint("nomemo: ", b.ErrTok), fmt.Sprint("memo: ", a.ErrTok), "")
				}
			}
		} else {
			c := &caseCtx{it, gshow, v.Name, entry, in, false, flag}
			o := pkg.New("uint32", -1, false).Step(obs.Req{Input: in, Rule: entry, Flag: flag, Want: want})
			if v.Name == "n" {
				plainN = &o
			}
			r.checkNoAST(c, v, &o, ref, hasCap, hostile, plain[0], plainN, key, sample)
		}
	}
}

func (r *Runner) checkAST(c *caseCtx, v spec.VariantStatus, o *obs.Obs, ref *ri.Result, w []rune, hostile, isPlain bool, plain *obs.Obs, key string, sample func() string) {
	vkey := key + "|" + v.Name + fmt.Sprint(c.nomemo)
	behProp := "C01"
	if !isPlain {
		behProp = "C02"
	}
	// ---- C13: never crash, offsets index the rune sequence
	r.eval("C13", hostile, vkey, sample)
	if o.Panic != "" {
		r.mismatch(c, "C13", "panic", "no panic", o.Panic, "")
		r.eval(behProp, true, vkey, sample)
		r.mismatch(c, behProp, "panic", fmt.Sprint("verdict ", ref.OK), "panic: "+o.Panic, "")
		return
	}
	if o.NoRule {
		r.mismatch(c, behProp, "no-rule", "rule present in table", "absent", "")
		return
	}
	if o.NilRule {
		if isPlain {
			r.eval("C01", false, vkey, nil)
			r.mismatch(c, "C01", "nil-entry", "reachable rule is a legal entry point", "nil table entry", "")
		}
		return
	}
	if o.OK {
		for _, t := range o.Toks {
			if t.B < 0 || t.B > t.E || t.E > len(w) {
				r.mismatch(c, "C13", "token-bounds", fmt.Sprintf("0<=b<=e<=%d", len(w)), tokStr(o.Toks), "")
				break
			}
		}
	} else {
		if o.NotPErr {
			r.mismatch(c, "C13", "error-type", "*parseError", "other error value", "")
		}
		if o.ErrTok.B < 0 || o.ErrTok.B > o.ErrTok.E || o.ErrTok.E > len(w) {
			r.mismatch(c, "C13", "errtok-bounds", fmt.Sprintf("0<=b<=e<=%d", len(w)), fmt.Sprint(o.ErrTok), "")
		}
		if o.ErrPanic != "" {
			r.mismatch(c, "C13", "error-panic", "no panic", o.ErrPanic, "")
		}
	}
	end := -1
	if o.OK && len(o.Toks) > 0 {
		end = o.Toks[len(o.Toks)-1].E
	}
	// ---- verdict and consumed prefix
	if isPlain {
		r.eval("C01", ref.DiscPos+ref.DiscTok+ref.RepIter > 0, vkey, sample)
		if o.OK != ref.OK {
			r.mismatch(c, "C01", "verdict", fmt.Sprint(ref.OK), fmt.Sprint(o.OK), fmt.Sprint(o.OK))
		} else if o.OK && end != ref.End {
			r.mismatch(c, "C01", "end", fmt.Sprint(ref.End), fmt.Sprint(end), "")
		}
		if hostile && o.OK == ref.OK && o.OK && normActions(tokStr(o.Toks)) != normActions(riTokStr(ref.Toks)) {
			r.mismatch(c, "C13", "tokens", riTokStr(ref.Toks), tokStr(o.Toks), "")
		}
	} else if plain != nil && plain.Panic == "" && !plain.NilRule && !plain.NoRule {
		r.eval("C02", v.Differs, vkey, sample)
		if o.OK != plain.OK {
			r.mismatch(c, "C02", "verdict", fmt.Sprint("plain: ", plain.OK), fmt.Sprint(o.OK), fmt.Sprint(o.OK))
		} else if o.OK && tokStr(o.Toks) != tokStr(plain.Toks) {
			r.mismatch(c, "C02", "tokens", "plain: "+tokStr(plain.Toks), tokStr(o.Toks), "")
		}
		if hostile && o.OK != ref.OK {
			r.mismatch(c, "C13", "verdict", fmt.Sprint(ref.OK), fmt.Sprint(o.OK), "")
		}
	}
	if hostile {
		return
	}
	if o.OK && ref.OK {
		// the token stream, action trace and tree are compared with the reference for every option
		// set (the properties are not limited to the default options)
		{
			// ---- C03 token stream
			r.eval("C03", ref.DiscTok > 0, vkey, sample)
			if got, wantS := normActions(tokStr(o.Toks)), normActions(riTokStr(ref.Toks)); got != wantS {
				r.mismatch(c, "C03", "tokens", wantS, got, "")
			}
			// ---- C04 action trace
			wantT := execStr(ref.Exec)
			eagerA, _ := eagerStr(ref.Eager, false)
			r.eval("C04", len(wantT) > 0 && len(eagerA) != len(wantT), vkey, sample)
			if o.ExecPanic != "" {
				r.mismatch(c, "C04", "panic", join(wantT), "panic: "+o.ExecPanic, "")
			} else if join(o.T) != join(wantT) {
				r.mismatch(c, "C04", "trace", join(wantT), join(o.T), "")
			}
			// ---- C05 tree and printers
			r.checkTree(c, o, ref, w, vkey, sample)
			// ---- the accessors are read-only: tokens and actions are the same after the tree was built
			if o.Reread && o.ASTPanic == "" {
				if tokStr(o.ToksAfter) != tokStr(o.Toks) {
					r.mismatch(c, "C03", "tokens-after-tree", tokStr(o.Toks), "after AST()/printers: "+tokStr(o.ToksAfter), "")
				}
				if o.ExecPanic == "" && join(o.TAfter) != join(o.T) {
					r.mismatch(c, "C04", "trace-after-tree", join(o.T), "Execute() after AST()/printers: "+join(o.TAfter), "")
				}
			}
		}
	}
	if !o.OK && !ref.OK {
		// ---- C11 error location
		strong := !hasSwitch(v.Name)
		r.eval("C11", ref.ErrTok.B != ref.ErrTok.E, vkey, sample)
		wantTok := obs.Tok{Name: ref.ErrTok.Name, B: ref.ErrTok.B, E: ref.ErrTok.E}
		if strong {
			if o.ErrTok != wantTok {
				r.mismatch(c, "C11", "errtok", fmt.Sprint(wantTok), fmt.Sprint(o.ErrTok), "")
			}
		} else if o.ErrTok != wantTok {
			// a sound optimiser may skip attempts: the token must still be one the grammar completes on this input
			if !(o.ErrTok == obs.Tok{Name: "Unknown"}) && !ref.Completed[ri.Tok{Name: o.ErrTok.Name, B: o.ErrTok.B, E: o.ErrTok.E}] {
				r.mismatch(c, "C11", "errtok-weak", "a token completed by the grammar on this input", fmt.Sprint(o.ErrTok), "")
			}
		}
		if o.ErrPanic != "" {
			r.mismatch(c, "C11", "error-panic", "message", "panic: "+o.ErrPanic, "")
		} else if o.ErrTok.B >= 0 && o.ErrTok.B <= o.ErrTok.E && o.ErrTok.E <= len(w) {
			if why := checkMessage(o.ErrMsg, o.ErrTok, w); why != "" {
				r.mismatch(c, "C11", "message", why, strconv.Quote(o.ErrMsg), why)
			}
		}
	}
}

var intRe = regexp.MustCompile(`-?\d+`)
var quotedRe = regexp.MustCompile(`"(?:[^"\\]|\\.)*"`)

// checkMessage verifies the text of a parse error against the token it reports. The wording is
// not prescribed by the property, so the check is tolerant: (1) the token's rule name appears in
// the message; (2) after removing that name, the integers of the message contain, in this order,
// line and column of the begin offset and line and column of the end offset; (3) some Go-quoted
// string in the message unquotes to input[begin:end].
// An offset that points at a '\n' may be reported either as (line, lastcol+1) or with the
// implementation's convention (line+1, 0); every other offset must match exactly.
func checkMessage(msg string, t obs.Tok, w []rune) string {
	plain := ansiRe.ReplaceAllString(msg, "")
	if !strings.Contains(plain, t.Name) {
		return "message does not name rule " + t.Name
	}
	want := string(w[t.B:t.E])
	okQuote := false
	for _, q := range quotedRe.FindAllString(plain, -1) {
		if u, err := strconv.Unquote(q); err == nil && u == want {
			okQuote = true
		}
	}
	if !okQuote {
		return "message does not quote input[begin:end] = " + strconv.Quote(want)
	}
	// integers outside quoted strings and outside the rule name
	rest := quotedRe.ReplaceAllString(plain, " ")
	rest = strings.ReplaceAll(rest, t.Name, " ")
	var nums []int
	for _, d := range intRe.FindAllString(rest, -1) {
		v, _ := strconv.Atoi(d)
		nums = append(nums, v)
	}
	type pos struct{ l, c int }
	alts := func(off int) []pos {
		l, c := ri.LineCol(w, off)
		out := []pos{{l, c}}
		if off < len(w) && w[off] == '\n' {
			out = append(out, pos{l + 1, 0})
		}
		return out
	}
	for _, b := range alts(t.B) {
		for _, e := range alts(t.E) {
			need := []int{b.l, b.c, e.l, e.c}
			k := 0
			for _, v := range nums {
				if k < 4 && v == need[k] {
					k++
				}
			}
			if k == 4 {
				return ""
			}
		}
	}
	bl, bc := ri.LineCol(w, t.B)
	el, ec := ri.LineCol(w, t.E)
	return fmt.Sprintf("positions: begin offset %d is line %d column %d, end offset %d is line %d column %d; the message has the numbers %v", t.B, bl, bc, t.E, el, ec, nums)
}

var ansiRe = regexp.MustCompile(`\x1B\[[0-9;]*m`)

func parsePrinted(s string) (lines []ri.TreeLine, err string) {
	s = ansiRe.ReplaceAllString(s, "")
	if s == "" {
		return nil, ""
	}
	if !strings.HasSuffix(s, "\n") {
		return nil, "output does not end with a newline"
	}
	for _, ln := range strings.Split(strings.TrimSuffix(s, "\n"), "\n") {
		d := 0
		for d < len(ln) && ln[d] == ' ' {
			d++
		}
		rest := ln[d:]
		sp := strings.IndexByte(rest, ' ')
		if sp < 0 {
			return nil, "line without text: " + strconv.Quote(ln)
		}
		txt, e := strconv.Unquote(rest[sp+1:])
		if e != nil {
			return nil, "text is not a quoted string: " + strconv.Quote(ln)
		}
		lines = append(lines, ri.TreeLine{Depth: d, Name: rest[:sp], Text: txt})
	}
	return lines, ""
}

func treeStr(ls []ri.TreeLine) string {
	var sb strings.Builder
	for _, l := range ls {
		fmt.Fprintf(&sb, "%d:%s:%s ", l.Depth, l.Name, strconv.Quote(l.Text))
	}
	return sb.String()
}

func (r *Runner) checkTree(c *caseCtx, o *obs.Obs, ref *ri.Result, w []rune, vkey string, sample func() string) {
	want := ref.Tree(w)
	r.eval("C05", len(want) >= 2, vkey, sample)
	if o.ASTPanic != "" {
		r.mismatch(c, "C05", "panic", treeStr(want), "panic: "+o.ASTPanic, "")
		return
	}
	var got []ri.TreeLine
	for _, l := range o.AST {
		if l.B < 0 || l.B > l.E || l.E > len(w) {
			r.mismatch(c, "C05", "ast-bounds", treeStr(want), fmt.Sprint(o.AST), "")
			return
		}
		got = append(got, ri.TreeLine{Depth: l.Depth, Name: l.Name, Text: string(w[l.B:l.E])})
	}
	strip := func(ls []ri.TreeLine) string {
		var sb strings.Builder
		for _, l := range ls {
			fmt.Fprintf(&sb, "%d:%s:%s ", l.Depth, l.Name, strconv.Quote(l.Text))
		}
		return sb.String()
	}
	if strip(got) != strip(want) {
		r.mismatch(c, "C05", "ast", strip(want), strip(got), "")
		return
	}
	outs := map[string]string{"SprintSyntaxTree": o.Sprint, "WriteSyntaxTree": o.Write}
	if c.it.Print {
		outs["PrintSyntaxTree"] = o.Print
		outs["PrintSyntaxTree(pretty)"] = o.Pretty
	}
	for _, name := range []string{"SprintSyntaxTree", "WriteSyntaxTree", "PrintSyntaxTree", "PrintSyntaxTree(pretty)"} {
		out, have := outs[name]
		if !have {
			continue
		}
		lines, perr := parsePrinted(out)
		if perr != "" {
			r.mismatch(c, "C05", "print", strip(want), name+": "+perr, name)
			continue
		}
		// any constant indent unit >= 1 is accepted
		unit := 0
		for _, l := range lines {
			if l.Depth > 0 && (unit == 0 || l.Depth < unit) {
				unit = l.Depth
			}
		}
		okTree := len(lines) == len(want)
		if okTree {
			for i, l := range lines {
				d := l.Depth
				if unit > 0 {
					if d%unit != 0 {
						okTree = false
						break
					}
					d /= unit
				}
				if d != want[i].Depth || l.Name != want[i].Name || l.Text != want[i].Text {
					okTree = false
					break
				}
			}
		}
		if !okTree {
			r.mismatch(c, "C05", "print", strip(want), name+": "+strconv.Quote(out), name)
		}
	}
}

func (r *Runner) checkNoAST(c *caseCtx, v spec.VariantStatus, o *obs.Obs, ref *ri.Result, hasCap, hostile bool, plain, plainN *obs.Obs, key string, sample func() string) {
	vkey := key + "|" + v.Name
	r.eval("C13", hostile, vkey, sample)
	r.eval("C07", true, vkey, sample)
	if o.Panic != "" {
		r.mismatch(c, "C13", "panic", "no panic", o.Panic, "")
		r.mismatch(c, "C07", "panic", fmt.Sprint("verdict ", ref.OK), "panic: "+o.Panic, "")
		return
	}
	if o.NoRule || o.NilRule {
		return
	}
	if o.OK != ref.OK {
		r.mismatch(c, "C07", "verdict", fmt.Sprint(ref.OK), fmt.Sprint(o.OK), fmt.Sprint(o.OK))
		return
	}
	if plain != nil && plain.Panic == "" && !plain.NilRule && !plain.NoRule && plain.OK != o.OK {
		r.mismatch(c, "C07", "verdict-vs-default", fmt.Sprint("default parser: ", plain.OK), fmt.Sprint(o.OK), "")
	}
	if hostile {
		return
	}
	if o.OK && c.entry == "" && o.End != ref.End {
		r.mismatch(c, "C07", "end", fmt.Sprint(ref.End), fmt.Sprint(o.End), "")
	}
	if !o.OK && !ref.OK {
		// ---- C11 for parsers without a tree: the furthest non-empty rule token (captures record none)
		w := []rune(c.input)
		r.eval("C11", ref.ErrTokNC.B != ref.ErrTokNC.E, vkey, sample)
		wantTok := obs.Tok{Name: ref.ErrTokNC.Name, B: ref.ErrTokNC.B, E: ref.ErrTokNC.E}
		if o.ErrTok != wantTok {
			if !hasSwitch(v.Name) {
				r.mismatch(c, "C11", "errtok-noast", fmt.Sprint(wantTok), fmt.Sprint(o.ErrTok), "")
			} else if !(o.ErrTok == obs.Tok{Name: "Unknown"}) && (o.ErrTok.B == o.ErrTok.E || !ref.Completed[ri.Tok{Name: o.ErrTok.Name, B: o.ErrTok.B, E: o.ErrTok.E}]) {
				r.mismatch(c, "C11", "errtok-weak-noast", "a non-empty token completed by the grammar on this input", fmt.Sprint(o.ErrTok), "")
			}
		}
		if o.ErrPanic != "" {
			r.mismatch(c, "C11", "error-panic", "message", "panic: "+o.ErrPanic, "")
		} else if o.ErrTok.B >= 0 && o.ErrTok.B <= o.ErrTok.E && o.ErrTok.E <= len(w) {
			if why := checkMessage(o.ErrMsg, o.ErrTok, w); why != "" {
				r.mismatch(c, "C11", "message", why, strconv.Quote(o.ErrMsg), why)
			}
		}
	}
	acts, _ := eagerStr(ref.Eager, hasCap)
	if !hasSwitch(v.Name) {
		if join(o.T) != join(acts) {
			r.mismatch(c, "C07", "eager-trace", join(acts), join(o.T), "")
		}
	} else {
		// a sound optimiser may skip attempts that are bound to fail; compare only when nothing
		// (action, capture, rule token) is created inside any failing branch or lookahead
		if ref.OK && ref.DiscTok == 0 && join(o.T) != join(acts) {
			r.mismatch(c, "C07", "eager-trace", join(acts), join(o.T), "")
		}
	}
}
