// Package sched is a controlled cooperative scheduler plus a stateless depth-first explorer with
// iterative preemption bounding. Threads are real goroutines, exactly one runs at a time (baton
// passing); Point() is a scheduling point; WaitGroup is a drop-in shim for sync.WaitGroup whose
// Go/Wait are scheduling-aware. The file is self-contained (standard library only) because it is
// also overlaid into the repository's module as a virtual package at check time.
package sched

import (
	"fmt"
	"sort"
	"strings"
	"time"
)

type thread struct {
	id      int
	wake    chan struct{}
	done    bool
	blocked *WaitGroup // waiting for this group to reach zero
	lock    any        // waiting for this Mutex / RWMutex to become available
}

// decision is one scheduling point at which more than one thread was enabled. The enabled
// threads are in canonical order (running thread first if enabled, then ascending ids); only
// their number is kept (an execution can have millions of decisions).
type decision struct {
	n       uint8 // number of enabled threads
	chosen  uint8 // index into the canonical order
	running bool  // the running thread was still enabled (choosing another one is a preemption)
}

type run struct {
	threads   []*thread
	cur       *thread
	prefix    []int
	decisions []decision
	trace     []int32 // (thread, site) pairs of every executed point, for replay validation
	points    int64
	failure   string
	doneCh    chan struct{}
	traceOn   bool
	buf       []int
}

var active *run

// Active reports whether a controlled execution is in progress (hooks are no-ops otherwise).
func Active() bool { return active != nil }

func (r *run) enabledList() (list []int, running bool) {
	list = r.buf[:0]
	defer func() { r.buf = list }()
	if r.cur != nil && !r.cur.done && r.cur.blocked == nil && r.cur.lock == nil {
		list = append(list, r.cur.id)
		running = true
	}
	for _, t := range r.threads {
		if t != r.cur && !t.done && t.blocked == nil && t.lock == nil {
			list = append(list, t.id)
		}
	}
	return
}

// schedule picks the next thread to run at a scheduling point reached by r.cur.
func (r *run) schedule(site int) (chosen *thread) {
	enabled, running := r.enabledList()
	if len(enabled) == 0 {
		// nothing can run: finished, or deadlock
		for _, t := range r.threads {
			if !t.done {
				r.failure = fmt.Sprintf("deadlock: thread %d is blocked and no thread is enabled", t.id)
				break
			}
		}
		close(r.doneCh)
		return nil
	}
	choice := 0
	if len(enabled) > 1 {
		k := len(r.decisions)
		if k < len(r.prefix) {
			choice = r.prefix[k]
			if choice >= len(enabled) {
				r.failure = fmt.Sprintf("replay divergence: decision %d has %d enabled threads, prefix asks for %d", k, len(enabled), choice)
				choice = 0
			}
		}
		r.decisions = append(r.decisions, decision{n: uint8(min(len(enabled), 255)), chosen: uint8(choice), running: running})
		if len(r.decisions) > MaxDecisions && r.failure == "" {
			// an execution that never ends (a wait the scheduler cannot see): end the run instead of
			// recording decisions until memory is exhausted; the threads of this run are abandoned
			r.failure = fmt.Sprintf("livelock: more than %d scheduling decisions in one execution", MaxDecisions)
			close(r.doneCh)
			select {}
		}
	}
	next := r.threads[enabled[choice]]
	prev := r.cur
	r.cur = next
	if next != prev {
		// from here on the chosen thread may run: the caller must decide whether to wait from the
		// returned value, never by re-reading r.cur (the other thread may already have handed the
		// baton back, leaving a stale token behind)
		next.wake <- struct{}{}
	}
	return next
}

// Point is a scheduling point. With fewer than two live threads it only counts.
// FinePoints enables the statement-level points (site FineSite) that instrumenters put into
// code whose coarse structure already has points of its own.
var FinePoints bool

// MaxDecisions bounds the length of one execution (see schedule).
var MaxDecisions = 50_000_000

const FineSite = -30

func Point(site int) {
	r := active
	if r == nil || (site == FineSite && !FinePoints) {
		return
	}
	r.points++
	live := 0
	for _, t := range r.threads {
		if !t.done {
			live++
		}
	}
	if live < 2 {
		return
	}
	me := r.cur
	if r.traceOn {
		r.trace = append(r.trace, int32(me.id), int32(site))
	}
	if r.schedule(site) != me {
		<-me.wake
	}
}

// Go starts f as a new thread of the controlled execution (or as a plain goroutine outside one).
func Go(f func()) {
	r := active
	if r == nil {
		go f()
		return
	}
	t := &thread{id: len(r.threads), wake: make(chan struct{}, 1)}
	r.threads = append(r.threads, t)
	go func() {
		<-t.wake
		defer func() {
			if e := recover(); e != nil && r.failure == "" {
				r.failure = fmt.Sprintf("panic in thread %d: %v", t.id, e)
			}
			t.done = true
			r.schedule(-1)
		}()
		f()
	}()
	// spawning is itself a scheduling point
	Point(-2)
}

// WaitGroup is the scheduling-aware replacement for sync.WaitGroup.
type WaitGroup struct {
	n int
}

func (w *WaitGroup) Add(d int) { w.n += d; w.release() }
func (w *WaitGroup) Done()     { w.n--; w.release() }

func (w *WaitGroup) release() {
	r := active
	if r == nil || w.n > 0 {
		return
	}
	for _, t := range r.threads {
		if t.blocked == w {
			t.blocked = nil
		}
	}
}

func (w *WaitGroup) Go(f func()) {
	w.n++
	Go(func() {
		defer w.Done()
		f()
	})
}

func (w *WaitGroup) Wait() {
	r := active
	if r == nil {
		if w.n > 0 {
			panic("sched: WaitGroup.Wait outside a controlled execution")
		}
		return
	}
	for w.n > 0 {
		me := r.cur
		me.blocked = w
		if next := r.schedule(-3); next != nil && next != me {
			<-me.wake
		} else if next == nil {
			// deadlock: nobody can ever release this group; the run has been ended
			select {}
		}
	}
}

// Mutex / RWMutex / Once shims. Waiting for a lock is visible to the scheduler: a thread that
// cannot take the lock is blocked (not enabled) until the lock is released, so that lock waits
// neither spin nor count as choices; taking a lock is a scheduling point.
type Mutex struct{ held bool }

// wait blocks the running thread on lock l until avail() holds.
func wait(l any, site int, avail func() bool) {
	r := active
	if r == nil {
		return
	}
	Point(site)
	for !avail() {
		me := r.cur
		me.lock = l
		if next := r.schedule(site); next != nil && next != me {
			<-me.wake
		} else if next == nil {
			select {} // deadlock: the run has been ended
		}
	}
}

func release(l any) {
	if r := active; r != nil {
		for _, t := range r.threads {
			if t.lock == l {
				t.lock = nil
			}
		}
	}
}

func (m *Mutex) Lock() {
	wait(m, -4, func() bool { return !m.held })
	m.held = true
}
func (m *Mutex) Unlock() { m.held = false; release(m) }
func (m *Mutex) TryLock() bool {
	Point(-4)
	if m.held {
		return false
	}
	m.held = true
	return true
}

type RWMutex struct {
	w bool
	r int
}

func (m *RWMutex) Lock() {
	wait(m, -5, func() bool { return !m.w && m.r == 0 })
	m.w = true
}
func (m *RWMutex) Unlock() { m.w = false; release(m) }
func (m *RWMutex) RLock() {
	wait(m, -5, func() bool { return !m.w })
	m.r++
}
func (m *RWMutex) RUnlock() { m.r--; release(m) }

type Once struct{ done bool }

func (o *Once) Do(f func()) {
	if !o.done {
		o.done = true
		f()
	}
}

// Execution is the record of one controlled execution.
type Execution struct {
	Choices     []int
	Decisions   int
	Preemptions int
	Points      int64
	Failure     string
	Trace       []int32
	decisions   []decision
}

// Execute runs body once under the scheduler, following prefix at the decision points and taking
// choice 0 (keep running the current thread) afterwards.
func Execute(prefix []int, trace bool, body func()) *Execution {
	r := &run{prefix: prefix, doneCh: make(chan struct{}), traceOn: trace}
	active = r
	main := &thread{id: 0, wake: make(chan struct{}, 1)}
	r.threads = append(r.threads, main)
	r.cur = main
	go func() {
		defer func() {
			if e := recover(); e != nil && r.failure == "" {
				r.failure = fmt.Sprintf("panic in thread 0: %v", e)
			}
			main.done = true
			r.schedule(-1)
		}()
		body()
	}()
	<-r.doneCh
	active = nil
	x := &Execution{Decisions: len(r.decisions), Points: r.points, Failure: r.failure, Trace: r.trace, decisions: r.decisions}
	x.Choices = make([]int, len(r.decisions))
	for i, d := range r.decisions {
		x.Choices[i] = int(d.chosen)
		if d.running && d.chosen != 0 {
			x.Preemptions++
		}
	}
	return x
}

// Stats of an exploration.
type Stats struct {
	Bound       int
	Schedules   int64
	Decisions   int64
	MaxDepth    int
	Points      int64
	Outcomes    map[string]int64
	Failures    []string
	FailChoices [][]int
	Capped      bool
}

// Explorer enumerates all schedules with at most Bound preemptions.
type Explorer struct {
	Bound int
	Body  func()
	// Check is called after every execution; a non-empty result is a violation.
	Check func(x *Execution) (outcome string, violation string)
	// Shard/Shards: only subtrees whose first branching index i satisfies i%Shards==Shard are explored
	// (the all-default schedule belongs to shard 0).
	Shard, Shards int
	MaxSchedules  int64
	Deadline      time.Time // zero = none; exploration stops (Capped) when it passes
	Stats         Stats
	top           int
}

func (e *Explorer) Run() *Stats {
	e.Stats = Stats{Bound: e.Bound, Outcomes: map[string]int64{}}
	if e.Shards <= 0 {
		e.Shards = 1
	}
	e.explore(nil, 0)
	return &e.Stats
}

func (e *Explorer) explore(prefix []int, depth int) {
	if e.stop() {
		e.Stats.Capped = true
		return
	}
	root := len(prefix) == 0
	x := Execute(prefix, false, e.Body)
	if !root || e.Shard == 0 {
		e.account(x)
	}
	// preemptions used before decision i (all choices before i are those of this execution)
	cost := 0
	for k := 0; k < len(prefix) && k < len(x.decisions); k++ {
		if x.decisions[k].running && x.decisions[k].chosen != 0 {
			cost++
		}
	}
	for i := len(prefix); i < len(x.decisions); i++ {
		d := x.decisions[i]
		if i > len(prefix) && x.decisions[i-1].running && x.decisions[i-1].chosen != 0 {
			cost++
		}
		for alt := 1; alt < int(d.n); alt++ {
			c := cost
			if d.running {
				c++ // switching away from a runnable thread is a preemption
			}
			if c > e.Bound {
				continue
			}
			if root {
				e.top++
				if e.top%e.Shards != e.Shard {
					continue
				}
			}
			if e.stop() {
				e.Stats.Capped = true
				return
			}
			next := append(append([]int{}, x.Choices[:i]...), alt)
			e.explore(next, depth+1)
		}
	}
}

func (e *Explorer) stop() bool {
	// five failing schedules are enough to report; a failing run may have abandoned its threads
	return len(e.Stats.Failures) >= 5 || (e.MaxSchedules > 0 && e.Stats.Schedules >= e.MaxSchedules) || (!e.Deadline.IsZero() && time.Now().After(e.Deadline))
}

func (e *Explorer) account(x *Execution) {
	e.Stats.Schedules++
	e.Stats.Decisions += int64(x.Decisions)
	e.Stats.Points += x.Points
	if x.Decisions > e.Stats.MaxDepth {
		e.Stats.MaxDepth = x.Decisions
	}
	outcome, violation := "", x.Failure
	if e.Check != nil && violation == "" {
		outcome, violation = e.Check(x)
	}
	if violation != "" {
		outcome = "VIOLATION"
		if len(e.Stats.Failures) < 5 {
			e.Stats.Failures = append(e.Stats.Failures, violation)
			e.Stats.FailChoices = append(e.Stats.FailChoices, append([]int{}, x.Choices...))
		}
	}
	e.Stats.Outcomes[outcome]++
}

// MapOrder selects the order in which Keys presents the keys of a map (a seam for the one source
// of nondeterminism the scheduler does not own): 0 ascending, 1 descending, 2 ascending rotated by
// one, 3 descending rotated by one.
var MapOrder int

// Keys returns the keys of m in the order selected by MapOrder. The instrumenter rewrites every
// `range` over a map into a range over Keys(m).
func Keys[K comparable, V any](m map[K]V) []K {
	keys := make([]K, 0, len(m))
	for k := range m {
		keys = append(keys, k)
	}
	sort.Slice(keys, func(i, j int) bool { return fmt.Sprint(keys[i]) < fmt.Sprint(keys[j]) })
	if MapOrder&1 == 1 {
		for i, j := 0, len(keys)-1; i < j; i, j = i+1, j-1 {
			keys[i], keys[j] = keys[j], keys[i]
		}
	}
	if MapOrder&2 == 2 && len(keys) > 1 {
		keys = append(keys[1:], keys[0])
	}
	return keys
}

// FormatChoices renders a schedule for replay files.
func FormatChoices(c []int) string {
	var sb strings.Builder
	for i, v := range c {
		if i > 0 {
			sb.WriteByte(',')
		}
		fmt.Fprintf(&sb, "%d", v)
	}
	return sb.String()
}
