package sched

import (
	"fmt"
	"strings"
	"testing"
)

// a lost update: two threads read-modify-write one counter with a scheduling point in between
func TestFindsLostUpdate(t *testing.T) {
	var n int
	body := func() {
		n = 0
		var wg WaitGroup
		for i := 0; i < 2; i++ {
			wg.Go(func() {
				v := n
				Point(1)
				n = v + 1
			})
		}
		wg.Wait()
	}
	e := &Explorer{Bound: 1, Body: body, Check: func(x *Execution) (string, string) {
		if n != 2 {
			return "", fmt.Sprintf("n=%d", n)
		}
		return "ok", ""
	}}
	st := e.Run()
	if len(st.Failures) == 0 {
		t.Fatalf("lost update not found in %d schedules", st.Schedules)
	}
	// the failing schedule replays to the same result, twice
	for k := 0; k < 2; k++ {
		x := Execute(st.FailChoices[0], false, body)
		if x.Failure != "" || n == 2 {
			t.Fatalf("replay %d: failure=%q n=%d", k, x.Failure, n)
		}
	}
}

// the same update under the Mutex shim: no schedule loses an update, a thread waiting for the lock
// is blocked (executions stay short), and both lock orders are explored
func TestMutexBlocks(t *testing.T) {
	var n int
	var order []int
	body := func() {
		n, order = 0, nil
		var wg WaitGroup
		var mu Mutex
		for i := 0; i < 3; i++ {
			i := i
			wg.Go(func() {
				mu.Lock()
				v := n
				Point(1)
				Point(2)
				n = v + 1
				order = append(order, i)
				mu.Unlock()
			})
		}
		wg.Wait()
	}
	orders := map[string]bool{}
	e := &Explorer{Bound: 2, Body: body, Check: func(x *Execution) (string, string) {
		if n != 3 {
			return "", fmt.Sprintf("n=%d", n)
		}
		orders[fmt.Sprint(order)] = true
		return "ok", ""
	}}
	st := e.Run()
	if len(st.Failures) > 0 {
		t.Fatalf("failures: %v", st.Failures)
	}
	if st.MaxDepth > 200 {
		t.Fatalf("executions of up to %d decisions: lock waits spin", st.MaxDepth)
	}
	if len(orders) != 6 {
		t.Fatalf("lock orders explored: %v", orders)
	}
}

func TestLockOrderDeadlock(t *testing.T) {
	body := func() {
		var wg WaitGroup
		var a, b Mutex
		wg.Go(func() { a.Lock(); Point(1); b.Lock(); b.Unlock(); a.Unlock() })
		wg.Go(func() { b.Lock(); Point(2); a.Lock(); a.Unlock(); b.Unlock() })
		wg.Wait()
	}
	st := (&Explorer{Bound: 2, Body: body}).Run()
	if len(st.Failures) == 0 || !strings.Contains(st.Failures[0], "deadlock") {
		t.Fatalf("deadlock not found: %d schedules, %v", st.Schedules, st.Failures)
	}
}

func TestLivelockIsCut(t *testing.T) {
	old := MaxDecisions
	MaxDecisions = 1000
	defer func() { MaxDecisions = old }()
	flag := false
	body := func() {
		flag = false
		var wg WaitGroup
		wg.Go(func() {
			for !flag { // a wait the scheduler cannot see
				Point(1)
			}
		})
		wg.Go(func() { flag = true })
		wg.Wait()
	}
	x := Execute(nil, false, body)
	if !strings.Contains(x.Failure, "livelock") {
		t.Fatalf("failure = %q after %d decisions", x.Failure, x.Decisions)
	}
}

func TestRWMutex(t *testing.T) {
	var readers, maxReaders int
	var bad string
	body := func() {
		readers, maxReaders, bad = 0, 0, ""
		var wg WaitGroup
		var mu RWMutex
		w := false
		for i := 0; i < 2; i++ {
			wg.Go(func() {
				mu.RLock()
				readers++
				maxReaders = max(maxReaders, readers)
				if w {
					bad = "reader inside writer"
				}
				Point(1)
				readers--
				mu.RUnlock()
			})
		}
		wg.Go(func() {
			mu.Lock()
			w = true
			if readers != 0 {
				bad = "writer inside readers"
			}
			Point(2)
			w = false
			mu.Unlock()
		})
		wg.Wait()
	}
	two := false
	st := (&Explorer{Bound: 2, Body: body, Check: func(x *Execution) (string, string) {
		if maxReaders == 2 {
			two = true
		}
		return "ok", bad
	}}).Run()
	if len(st.Failures) > 0 || !two {
		t.Fatalf("failures %v, two concurrent readers seen: %v", st.Failures, two)
	}
}
