package families

import (
	"fmt"
	"strings"

	"verif/internal/ag"
	"verif/internal/ri"
	"verif/internal/runner"
	"verif/internal/spec"
)

// Menu picks up to n inputs (over sigma, length <= maxLen) with pairwise different reference
// outcomes (verdict, consumed prefix / furthest token), always including the empty input:
// accepted and rejected inputs that share prefixes, of shrinking and growing length.
func Menu(g *ag.Grammar, sigma []string, maxLen, n int) []string {
	in := ri.New(g)
	seen := map[string]bool{}
	menu := []string{""}
	seen[sig(in, g, "")] = true
	all := runner.Inputs(sigma, maxLen, nil)
	// longest inputs first for one pass, shortest first for the other, so that lengths vary
	for pass := 0; pass < 2 && len(menu) < n; pass++ {
		for k := range all {
			s := all[k]
			if pass == 0 {
				s = all[len(all)-1-k]
			}
			sg := sig(in, g, s)
			if seen[sg] {
				continue
			}
			seen[sg] = true
			menu = append(menu, s)
			if len(menu) >= n || (pass == 0 && len(menu) >= n/2+1) {
				break
			}
		}
	}
	// grammars with few distinct outcomes: fill up with further inputs (same outcome, different text
	// and length), so that no menu is trivial
	in2 := map[string]bool{}
	for _, m := range menu {
		in2[m] = true
	}
	for k := 0; len(menu) < min(n, 4) && k < len(all); k++ {
		s := all[(k*7+3)%len(all)]
		if !in2[s] {
			in2[s] = true
			menu = append(menu, s)
		}
	}
	return menu
}

func sig(in *ri.Interp, g *ag.Grammar, s string) string {
	r := in.Parse(g.Rules[0].Name, []rune(s))
	if r.Abort != "" {
		return "abort"
	}
	if r.OK {
		return fmt.Sprintf("ok %d %d", r.End, len(r.Toks))
	}
	return fmt.Sprintf("fail %v", r.ErrTok)
}

// Hist builds history-exploration items from behaviour cases.
func Hist(cases []*Case, depth, menuN int, sizes []int, us []string, variants []string) []*Case {
	var out []*Case
	for _, c := range cases {
		g := c.G.Clone()
		g.ID = "HIST/" + g.ID
		menu := Menu(g, c.Sigma, 4, menuN)
		// up to two other rules are also used as explicit entry points within histories
		var entries []string
		for _, r := range g.Rules[1:] {
			if len(entries) < 2 {
				entries = append(entries, r.Name)
			}
		}
		out = append(out, &Case{Family: "HIST-" + c.Family, G: g, Extra: menu, Entries: entries, Depth: depth, Sizes: sizes, Us: us, Variants: variants, Mode: spec.ModeHistory})
	}
	return out
}

// LongInputs: boundary lengths of the token index type on iterative grammars.
func LongInputs(variants []string) []*Case {
	var out []*Case
	mk := func(id string, e *ag.Expr) *ag.Grammar {
		g := ag.G("LONG/"+id, ag.Rule{Name: "S", Body: e})
		g.Number()
		return g
	}
	gs := []*ag.Grammar{
		mk("a*", ag.S(ag.U(ag.Star, lit("a")), ag.U(ag.Not, ag.D()))),
		mk("dot*", ag.S(ag.U(ag.Star, ag.S(ag.U(ag.Not, lit("b")), ag.D())), ag.U(ag.Opt, lit("b")))),
		mk("cap", ag.S(ag.U(ag.Cap, ag.U(ag.Plus, rng('a', 'b'))), ag.Action(), ag.U(ag.Not, ag.D()))),
	}
	for _, g := range gs {
		menu := []string{"", "ab", strings.Repeat("a", 65534), strings.Repeat("a", 65535), strings.Repeat("a", 65533) + "b", strings.Repeat("a", 70) + "c"}
		out = append(out, &Case{Family: "LONG", G: g, Extra: menu, Depth: 2, Sizes: []int{-1, 1}, Us: []string{"uint16", "uint32", "uint"}, Variants: variants, Mode: spec.ModeHistory})
	}
	// more tokens than the position type can count although the input fits it: two tokens per rune
	tok2 := ag.G("LONG/tokens",
		ag.Rule{Name: "S", Body: ag.S(ag.U(ag.Star, ag.N("I")), ag.U(ag.Not, ag.D()))},
		ag.Rule{Name: "I", Body: ag.N("L")},
		ag.Rule{Name: "L", Body: lit("a")})
	tok2.Number()
	out = append(out, &Case{Family: "LONG", G: tok2, Extra: []string{"", "aa", strings.Repeat("a", 32767), strings.Repeat("a", 32768), "ab"}, Depth: 2, Sizes: []int{-1}, Us: []string{"uint16", "uint32"}, Variants: variants, Mode: spec.ModeHistory, NoTree: true})
	// lengths around 65536 and beyond need a 32-bit index
	for _, g := range gs[:2] {
		g2 := g.Clone()
		g2.ID += "/32"
		menu := []string{"a", strings.Repeat("a", 65535), strings.Repeat("a", 65536), strings.Repeat("a", 65537), strings.Repeat("a", 100000), strings.Repeat("a", 65536) + "c"}
		out = append(out, &Case{Family: "LONG", G: g2, Extra: menu, Depth: 2, Sizes: []int{-1}, Us: []string{"uint32", "uint64"}, Variants: variants, Mode: spec.ModeHistory})
	}
	return out
}
