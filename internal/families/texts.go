package families

import (
	"fmt"
	"strings"

	"verif/internal/ag"
)

// TextCase is a grammar given as source text (front-end / generator families).
type TextCase struct {
	ID     string
	Family string
	Text   string
	// TextNoAST, if set, is the variant of the text for -noast parsers (probe actions differ)
	TextNoAST string
	// AllowStderr: regular expression of diagnostics the generator may print for this text
	AllowStderr string
	// Valid: the text is a grammar in the documented syntax whose actions are valid Go (C08's domain)
	Valid bool
}

const hdrT = "package g\n\ntype P Peg {\n N int\n}\n\n"

// F9: grammars with n rules (with and without actions).
func F9(sizes []int) []TextCase {
	var out []TextCase
	for _, n := range sizes {
		for _, acts := range []bool{false, true} {
			var sb strings.Builder
			sb.WriteString(hdrT)
			sb.WriteString("S <- (")
			for i := 0; i < n; i++ {
				if i > 0 {
					sb.WriteString(" / ")
				}
				fmt.Fprintf(&sb, "R%d", i)
			}
			sb.WriteString(") !.\n")
			for i := 0; i < n; i++ {
				if acts {
					fmt.Fprintf(&sb, "R%d <- 'r%d;' { p.N++ }\n", i, i)
				} else {
					fmt.Fprintf(&sb, "R%d <- 'r%d;'\n", i, i)
				}
			}
			out = append(out, TextCase{ID: fmt.Sprintf("F9/%d/acts=%v", n, acts), Family: "F9", Text: sb.String(), Valid: true})
		}
	}
	return out
}

// Imports: user imports in every documented form, including packages the runtime imports itself.
func Imports() []TextCase {
	use := map[string]string{
		"strings": `_ = strings.ToUpper("x")`, "math": `_ = math.Pi`, "fmt": `_ = fmt.Sprint(1)`, "os": `_ = os.Args`, "io": `_ = io.EOF`,
		"bytes": `_ = bytes.MinRead`, "slices": `_ = slices.Contains([]int{1}, 1)`, "strconv": `_ = strconv.Itoa(1)`, "math/bits": `_ = bits.Len(1)`,
		"unicode": `_ = unicode.MaxRune`, "unicode/utf8": `_ = utf8.RuneError`, "sort": `sort.Ints(nil)`, "errors": `_ = errors.New("x")`,
	}
	mk := func(id, imports string, uses ...string) TextCase {
		var acts []string
		for _, u := range uses {
			acts = append(acts, u)
		}
		text := "package g\n\n" + imports + "\ntype P Peg {\n N int\n}\n\nS <- 'a' { " + strings.Join(acts, "; ") + " }\n"
		return TextCase{ID: "IMP/" + id, Family: "IMP", Text: text, Valid: true}
	}
	var out []TextCase
	for _, p := range []string{"strings", "math", "fmt", "os", "io", "bytes", "slices", "strconv", "math/bits", "unicode/utf8", "sort", "errors"} {
		out = append(out, mk("single/"+p, fmt.Sprintf("import %q\n", p), use[p]))
	}
	out = append(out,
		mk("alias", "import str \"strings\"\n", `_ = str.ToUpper("x")`),
		mk("alias-runtime", "import f \"fmt\"\n", `_ = f.Sprint(1)`),
		mk("two-sorted", "import \"math\"\nimport \"strings\"\n", use["math"], use["strings"]),
		mk("two-unsorted", "import \"strings\"\nimport \"math\"\n", use["math"], use["strings"]),
		mk("grouped", "import (\n\"strings\"\n\"math\"\n)\n", use["math"], use["strings"]),
		mk("grouped-alias", "import (\nstr \"strings\"\n\"math\"\n)\n", `_ = str.ToUpper("x")`, use["math"]),
		mk("prefix-pair", "import \"math/bits\"\nimport m \"math\"\n", use["math/bits"], `_ = m.Pi`),
		mk("prefix-pair2", "import u \"unicode\"\nimport \"unicode/utf8\"\n", `_ = u.MaxRune`, use["unicode/utf8"]),
		mk("three", "import \"unicode/utf8\"\nimport \"sort\"\nimport \"errors\"\n", use["unicode/utf8"], use["sort"], use["errors"]),
		mk("dup-user", "import \"strings\"\nimport \"strings\"\n", use["strings"]),
		mk("runtime-two", "import \"os\"\nimport \"fmt\"\n", use["os"], use["fmt"]),
		mk("alias-z", "import z \"errors\"\nimport \"sort\"\n", `_ = z.New("x")`, use["sort"]),
	)
	return out
}

// Headers: comments and spacing before the package clause.
func Headers() []TextCase {
	body := "package g\n\ntype P Peg {\n}\n\nS <- 'a'\n"
	hs := map[string]string{
		"hash":        "# a comment\n",
		"slashes":     "// a comment\n",
		"two":         "# one\n// two\n\n",
		"close":       "# ends a block */ here\n",
		"open":        "// opens /* here\n",
		"nonascii":    "# héllo 汉 😀\n",
		"blank-lines": "\n\n# x\n\n\n",
		"tabs":        "\t# indented\n",
		"crlf":        "# dos\r\n",
		"empty-hash":  "#\n",
		"directive":   "//go:build ignore\n",
		"plusbuild":   "// +build ignore\n",
		"backslash":   "# back\\slash \\n \"quote\"\n",
	}
	var out []TextCase
	for _, k := range sortedKeys(hs) {
		out = append(out, TextCase{ID: "HDR/" + k, Family: "HDR", Text: hs[k] + body, Valid: true})
	}
	return out
}

func sortedKeys(m map[string]string) []string {
	var ks []string
	for k := range m {
		ks = append(ks, k)
	}
	for i := range ks {
		for j := i + 1; j < len(ks); j++ {
			if ks[j] < ks[i] {
				ks[i], ks[j] = ks[j], ks[i]
			}
		}
	}
	return ks
}

// HostileLiterals: literals and classes over awkward runes.
func HostileLiterals() []TextCase {
	menu := []rune{'\'', '"', '\\', 0, '\n', '\r', 0xFFFD, 0x10FFFF, '*', '/', '%', '`', '{', '}', 0x7f, 0x80, 0x2028, '\t', '[', ']', '-', '^'}
	var out []TextCase
	for i, c := range menu {
		for j, shape := range []func(c rune) *ag.Expr{
			func(c rune) *ag.Expr { return ag.L(string(c)) },
			func(c rune) *ag.Expr { return ag.LI(string(c)) },
			func(c rune) *ag.Expr { return ag.C(ag.R(c, c)) },
			func(c rune) *ag.Expr { return ag.CN(ag.R(c, c)) },
			func(c rune) *ag.Expr { return ag.A(ag.L(string(c)), ag.L("x"+string(c)), ag.L("y")) },
			func(c rune) *ag.Expr { return ag.L("*" + string(c) + "/") },
			func(c rune) *ag.Expr { return ag.S(ag.L("*"), ag.L("/"), ag.L(string(c))) },
		} {
			g := ag.G(fmt.Sprintf("LIT/%d/%d", i, j), ag.Rule{Name: "S", Body: shape(c)})
			g.Number()
			out = append(out, TextCase{ID: g.ID, Family: "LIT", Text: ag.Render(g, ag.RenderOpts{Package: "g"}), Valid: true})
		}
	}
	// ranges that span the surrogate block inside a choice the -switch optimiser rewrites (no input
	// rune is ever a surrogate, but the case labels are written from the range)
	for i, r := range [][2]rune{{0xD000, 0xE000}, {0xD7FF, 0xD801}, {0xDFFE, 0xE001}} {
		g := ag.G(fmt.Sprintf("LIT/surrogates/%d", i), ag.Rule{Name: "S", Body: ag.A(ag.S(ag.C(ag.R(r[0], r[1])), ag.L("x")), ag.S(ag.C(ag.R(0x1000, 0x4000)), ag.L("y")), ag.L("a"))})
		g.Number()
		out = append(out, TextCase{ID: g.ID, Family: "LIT", Text: ag.Render(g, ag.RenderOpts{Package: "g"}), Valid: true})
	}
	// ranges with awkward bounds
	for i, r := range [][2]rune{{'*', '/'}, {0, 0x10FFFF}, {'\'', '"'}, {'!', '~'}, {0x7f, 0xa0}, {'\\', ']'}} {
		if r[0] > r[1] {
			r[0], r[1] = r[1], r[0]
		}
		g := ag.G(fmt.Sprintf("LIT/range/%d", i), ag.Rule{Name: "S", Body: ag.A(ag.C(ag.R(r[0], r[1])), ag.L("é"), ag.S(ag.C(ag.R(r[0], r[1])), ag.L("z")))})
		g.Number()
		out = append(out, TextCase{ID: g.ID, Family: "LIT", Text: ag.Render(g, ag.RenderOpts{Package: "g"}), Valid: true})
	}
	return out
}

// CodeBlocks: actions and predicates whose text contains comments, strings and nested braces.
func CodeBlocks() []TextCase {
	codes := map[string]string{
		"block-comment":   " /* c */ p.N++ ",
		"line-comment":    " p.N++ // trailing\n ",
		"close-comment":   ` _ = "*/" `,
		"open-comment":    ` _ = "/*" `,
		"nested-braces":   " if p.N >= 0 { p.N++ } else { p.N-- } ",
		"func-literal":    " f := func() int { return 1 }; p.N += f() ",
		"struct-literal":  " _ = struct{ a int }{a: 1} ",
		"raw-string":      " _ = `a\nb` ",
		"string-escapes":  ` _ = "q\"q\\" `,
		"rune-literals":   ` _ = '\''; _ = '"' `,
		"multiline":       "\n\tp.N++\n\tp.N--\n",
		"label":           " goto done; done: p.N++ ",
		"percent":         ` _ = fmt.Sprintf("%d%%", 1) `,
		"modulo":          ` p.N = (p.N + 1) % 3; p.N %= 2 `,
		"quote-rune":      ` if p.N == '"' { p.N++ } else { p.N--; _ = "other" } `,
		"quote-raw":       " _ = `\"`; if p.N > 0 { p.N = 0 }; _ = \"x\" ",
		"quote-comment":   " /* \" */ if p.N > 0 { p.N = 0 } /* \" */ ",
		"brace-strings":   ` _ = "{"; _ = "}"; _ = '{'; _ = '}' `,
		"unicode":         ` _ = "é汉😀" `,
		"empty":           " ",
		"number-literals": " _ = 0X1F + 0B11 + 0O17; _ = 1E3; _ = 0XABCp-2 ",
	}
	preds := map[string]string{
		"block-comment": " /* c */ true ",
		"close-comment": ` "*/" != "" `,
		"call":          " func() bool { return p.N >= 0 }() ",
		"percent":       ` fmt.Sprintf("%d", 1) == "1" `,
		"modulo":        ` p.N%3 == 0 `,
		"modulo-spaced": ` (p.N + 1) % 3 != 5 `,
		"verbs":         ` p.N%2 == 0 && p.N%5 != 7 && fmt.Sprintf("%v%s", p.N, "%") != "" `,
		"own-line":      "\n\tp.N >= 0\n",
	}
	var out []TextCase
	for _, k := range sortedKeys(codes) {
		out = append(out, TextCase{ID: "CODE/action/" + k, Family: "CODE", Text: hdrT + "S <- 'a' {" + codes[k] + "} 'b'\n", Valid: true})
		out = append(out, TextCase{ID: "CODE/capture-action/" + k, Family: "CODE", Text: hdrT + "S <- <'a'> {" + codes[k] + "} / 'b' { _ = text }\n", Valid: true})
	}
	for _, k := range sortedKeys(preds) {
		out = append(out, TextCase{ID: "CODE/pred/" + k, Family: "CODE", Text: hdrT + "S <- &{" + preds[k] + "} 'a'\n", Valid: true})
		out = append(out, TextCase{ID: "CODE/state/" + k, Family: "CODE", Text: hdrT + "S <- !{ p.N++; _ = " + preds[k] + "} 'a'\n", Valid: true})
	}
	return out
}


// UnusedRules: accepted grammars with rules that are defined but not used (peg warns and still
// generates): the generated file must be valid Go all the same, under every option set.
func UnusedRules() []TextCase {
	used := []string{"S <- A 'x' / B !.", "A <- <'a'+> { p.N++ }", "B <- 'b' (S / 'y')?"}
	spare := []string{"U1 <- 'u'", "U2 <- 'v' U1? / 'w'", "U3 <- <'q'> { p.N-- } A", "U4 <- !'z' . U4?"}
	var out []TextCase
	add := func(id string, rules []string) {
		out = append(out, TextCase{ID: "UNUSED/" + id, Family: "UNUSED", Text: hdrT + strings.Join(rules, "\n") + "\n", Valid: true,
			AllowStderr: `^(warning: rule '\w+' defined but not used\n?)+$`})
	}
	// one unused rule at every position after the first rule
	for si, sp := range []string{spare[0], spare[2], spare[3]} {
		for pos := 1; pos <= len(used); pos++ {
			rules := append(append(append([]string{}, used[:pos]...), sp), used[pos:]...)
			add(fmt.Sprintf("one/%d/%d", si, pos), rules)
		}
	}
	// two and three unused rules, interleaved
	add("two/front", []string{used[0], spare[0], spare[1], used[1], used[2]})
	add("two/spread", []string{used[0], spare[0], used[1], spare[1], used[2]})
	add("two/back", []string{used[0], used[1], used[2], spare[0], spare[1]})
	add("three", []string{used[0], spare[0], used[1], spare[1], used[2], spare[2]})
	add("four", []string{used[0], spare[3], spare[0], used[1], spare[1], used[2], spare[2]})
	// a construct that occurs only in an unused rule (the runtime helpers the template declares
	// depend on which constructs the grammar uses)
	bases := []string{"S <- 'x'", "S <- [a-c]", "S <- .", "S <- 'x' T\nT <- [a-c] 'y'"}
	only := []string{"U <- .", "U <- [^a]", "U <- 'xy'", "U <- 'z'", "U <- [d-f]", "U <- <'x'> { p.N++ }", "U <- { p.N++ }", "U <- &{ true } 'x'", "U <- !{ p.N++ } 'x'", `U <- "k"`, "U <- [[a]]", "U <- !.", "U <- 'x' U?"}
	for bi, b := range bases {
		for oi, o := range only {
			add(fmt.Sprintf("only/%d/%d", bi, oi), []string{b, o})
		}
	}
	return out
}
