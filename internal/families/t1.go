package families

import (
	"fmt"
	"regexp"

	"verif/internal/ag"
	"verif/internal/reader"
)

// T1 seeds: one rule body per construct of the documented syntax. Each body is wrapped into a
// complete grammar text; A and B are helper rules.
var t1Bodies = []string{
	// literals
	`'a'`, `'ab'`, `'aBc'`, `"a"`, `"ab"`, `"aB"`, `"a1b"`, `'a' 'b'`, `"a" 'b'`, `'+'`, `"-"`, `'a-b'`, `'[x]'`, `"[x]"`, `'#'`, `'//'`, `'<-'`, `' '`,
	// every escape, in single quotes, double quotes and classes
	`'\a'`, `'\b'`, `'\e'`, `'\f'`, `'\n'`, `'\r'`, `'\t'`, `'\v'`, `'\''`, `'\"'`, `'\['`, `'\]'`, `'\-'`, `'\\'`,
	`"\a"`, `"\n"`, `"\t"`, `"\""`, `"\'"`, `"\\"`, `"\[\]"`, `"\-"`,
	`[\a]`, `[\n]`, `[\t]`, `[\]]`, `[\[]`, `[\-]`, `[\\]`, `[\']`, `[\"]`, `[\e\f\v\r\b]`,
	`'\0x41'`, `'\0x61\0x62'`, `'\0x0'`, `'\0x1F600'`, `'\0xe9'`, `'\0xE9'`, `'\0x10FFFF'`, `'\0x7f'`, `"\0x41"`, `[\0x41-\0x43]`, `[\0x1F600]`,
	`'\101'`, `'\141\142'`, `'\0'`, `'\7'`, `'\12'`, `'\177'`, `'\200'`, `'\377'`, `'\303'`, `'\18'`, `'\400'`, `"\101"`, `[\101-\103]`, `[\60-\71]`,
	`'a\nb'`, `'\\n'`, `'a\'b'`, `"a\"b"`, `'"'`, `"'"`,
	// classes
	`[a]`, `[abc]`, `[a-c]`, `[a-cx-z]`, `[a-cx]`, `[xa-c]`, `[^a]`, `[^a-c]`, `[^abc]`, `[^a-cx]`, `[[a]]`, `[[a-c]]`, `[[A-C]]`, `[[^a]]`, `[[^a-c]]`, `[[ab]]`, `[[a-c1]]`,
	`[a\-c]`, `[-a]`, `[a^]`, `[^^]`, `[0-9]`, `[a-zA-Z_]`, `[ \t]`, `[.]`, `['"]`, `[{}]`, `[é]`, `[à-ü]`, `[^\n]`, `[^\]]`, `[[\-]]`,
	// dot, references
	`.`, `. .`, `.*`, `A`, `A B`, `A / B`, `A* B`,
	// operators and precedence
	`'a' 'b' / 'c'`, `'a' / 'b' 'c'`, `'a' / 'b' / 'c'`, `('a' / 'b') 'c'`, `'a' ('b' / 'c')`, `'a' ('b' / 'c')*`,
	`!'a' 'b'`, `&'a' 'a'`, `!'a'* 'b'`, `&'a'+ 'a'`, `!('a' 'b') .`, `&('a' / 'b') .`, `!A B`, `&A A`,
	`'a'?`, `'a'*`, `'a'+`, `'a'? 'b'+ 'c'*`, `('a' 'b')?`, `('a' 'b')+`, `('a' / 'b')*`, `(('a'))`, `((('a') 'b'))`,
	`<'a'>`, `<'a' 'b'> 'c'`, `<'a' / 'b'>`, `<'a'>*`, `<'a'*>`, `!<'a'> .`, `<A> B`, `< 'a' < 'b' > >`,
	`'a' /`, `'a' / 'b' /`, `('a' /) 'b'`, `('a' / 'b' /) 'c'`,
	`'a' !.`, `.+ !.`, `(!'b' .)* 'b'`,
	// code blocks
	`{ p.N++ }`, `'a' { p.N++ }`, `{ p.N++ } 'a'`, `{ if true { p.N++ } }`, `&{ true } 'a'`, `!{ p.N++ } 'a'`, `&{ p.N == 0 }`, `<'a'> { _ = text }`,
	`'a' { p.N++ } / 'b' { p.N-- }`, `({ p.N++ })`, `{}`,
	`'a' { if p.N == '"' { p.N++ } else { p.N--; _ = "x" } }`, "'a' { _ = `\"`; if true { p.N++ } }", `'a' { if true { p.N++ } /* " */ } 'b' { /* " */ p.N-- }`,
}

var t1Frames = []struct{ name, pre, post string }{
	{"plain", "package g\n\ntype P Peg {\n N int\n}\n\nS <- ", "\nA <- 'a'\nB <- 'b'\n"},
}

// t1Whole are complete texts exercising the header, imports, arrows and comments.
var t1Whole = []string{
	"package g\ntype P Peg {}\nS <- 'a'\n",
	"package g\ntype P Peg {}\nS ← 'a'\nT ← S\n",
	"# header\npackage g\ntype P Peg {}\nS <- 'a' # trailing\n",
	"// header\n// more\npackage g\ntype P Peg {}\nS <- 'a' // trailing\n",
	"\n\n  \t# indented comment\n\npackage g\n\n\ntype P Peg {}\n\n\nS <- 'a'\n\n\n",
	"package g\nimport \"strings\"\ntype P Peg {}\nS <- 'a' { _ = strings.ToUpper(\"x\") }\n",
	"package g\nimport str \"strings\"\ntype P Peg {}\nS <- 'a' { _ = str.ToUpper(\"x\") }\n",
	"package g\nimport \"strings\"\nimport m \"math\"\ntype P Peg {}\nS <- 'a' { _ = strings.ToUpper(\"x\"); _ = m.Pi }\n",
	"package g\nimport (\n\"strings\"\nm \"math\"\n)\ntype P Peg {}\nS <- 'a' { _ = strings.ToUpper(\"x\"); _ = m.Pi }\n",
	"package g\nimport \"unicode/utf8\"\ntype P Peg {}\nS <- 'a' { _ = utf8.RuneError }\n",
	"package g\nimport f \"fmt\"\ntype P Peg {}\nS <- 'a' { _ = f.Sprint(1) }\n",
	"package g\nimport sc \"strconv\"\nimport \"os\"\ntype P Peg {}\nS <- 'a' { _ = sc.Itoa(1); _ = os.Args }\n",
	"package g\nimport a \"strings\"\nimport b \"strings\"\ntype P Peg {}\nS <- 'a' { _ = a.ToUpper(\"x\"); _ = b.ToLower(\"x\") }\n",
	"package g\nimport \"strings\"\nimport up \"strings\"\ntype P Peg {}\nS <- 'a' { _ = strings.ToUpper(\"x\"); _ = up.ToLower(\"x\") }\n",
	"package g\ntype P Peg {\n a int\n b struct{ c int }\n}\nS <- 'a'\n",
	"package g\ntype P Peg {}\nS <- A\n   / B\nA <- 'a'\nB <- 'b'\n",
	"package g\ntype P Peg {}\nS <- A B\nA <- 'a' # one\n# between\nB <- 'b' // two\n",
	"package g\r\ntype P Peg {}\r\nS <- 'a'\r\nT <- S\r\n",
	"package g\ntype P Peg {}\nS <- 'a'", // no final newline
	"package g\ntype P Peg {}\nS_1 <- _x\n_x <- 'a'\n",
	"package g\ntype P Peg {}\nS<-'a'/'b'\n",
	"package g\ntype P Peg {}\nS\t<-\t'a'\t'b'\n",
	"package g\ntype P Peg {}\nS <- A B\nA <-\nB <- 'b'\n",                   // an empty body followed by another definition
	"package g\ntype P Peg {}\nS <- A 'x' /\nA <- # nothing\n\nB <- 'b' A\n", // trailing empty alternative, empty body with a comment
	"package main\ntype Calc Peg {\n stack []int\n}\nExpr <- Term ('+' Term { p.stack = nil })* !.\nTerm <- <[0-9]+> { _ = text }\n",
}

// arrowRe matches the arrow of a definition at the start of a line (never one inside a literal).
var arrowRe = regexp.MustCompile(`(?m)^(\w+[ \t]*)<-`)

var t1Fillers = []string{" ", "\t", "\n", "  \n\t", " # c\n", " // c\n", "\r\n", "#\n", "\r", " # c\r", " // c\r\n"}

// T1 returns the spelling corpus: every seed, and every seed with each filler inserted at each
// token boundary (the reader's notion of where white space is allowed). `seedOf` maps each text
// to the seed it must be equivalent to.
func T1(maxVariantsPerSeed int) (texts []TextCase, seedOf map[string]string) {
	seedOf = map[string]string{}
	var seeds []string
	for _, fr := range t1Frames {
		for _, b := range t1Bodies {
			seeds = append(seeds, fr.pre+b+fr.post)
		}
	}
	seeds = append(seeds, t1Whole...)
	// every ASCII letter in every case-insensitive construct, in both cases (one text each, no
	// spelling variants: what matters here is the letter)
	nBase := len(seeds)
	for c := 'a'; c <= 'z'; c++ {
		u := c - 'a' + 'A'
		for _, body := range []string{
			fmt.Sprintf(`"%c"`, c), fmt.Sprintf(`"%c"`, u), fmt.Sprintf(`"x%cy"`, c),
			fmt.Sprintf(`[[%c]]`, c), fmt.Sprintf(`[[%c]]`, u),
			fmt.Sprintf(`[[a-%c]]`, c), fmt.Sprintf(`[[%c-z]]`, c), fmt.Sprintf(`[[A-%c]]`, u), fmt.Sprintf(`[[%c-Z]]`, u), fmt.Sprintf(`[[^%c]]`, c),
		} {
			seeds = append(seeds, t1Frames[0].pre+body+t1Frames[0].post)
		}
	}
	seen := map[string]bool{}
	add := func(id, text, seed string) {
		if seen[text] {
			return
		}
		seen[text] = true
		seedOf[text] = seed
		texts = append(texts, TextCase{ID: id, Family: "T1", Text: text, Valid: true})
	}
	for si, seed := range seeds {
		add(fmt.Sprintf("T1/%d", si), seed, seed)
		f, err := reader.Parse(seed)
		if err != nil {
			continue
		}
		base := ag.Show(f.Grammar)
		n := 0
		if si >= nBase {
			continue
		}
		for _, off := range f.Boundaries {
			for _, fill := range t1Fillers {
				if maxVariantsPerSeed > 0 && n >= maxVariantsPerSeed {
					break
				}
				v := seed[:off] + fill + seed[off:]
				// keep only variants that the reader sees as the same grammar
				vf, err := reader.Parse(v)
				if err != nil || ag.Show(vf.Grammar) != base || fmt.Sprint(vf.Imports) != fmt.Sprint(f.Imports) || vf.State != f.State {
					continue
				}
				add(fmt.Sprintf("T1/%d/%d%q", si, off, fill), v, seed)
				n++
			}
		}
		// arrow spelling
		if v := arrowRe.ReplaceAllString(seed, "${1}←"); v != seed {
			add(fmt.Sprintf("T1/%d/arrow", si), v, seed)
		}
	}
	return texts, seedOf
}

var t2Menu = []string{" ", "\n", "'", "\"", "[", "]", "(", ")", "{", "}", "/", "<", "-", "\\", "a", "!", "*", "#"}

var t2Seeds = []string{
	"package g\ntype P Peg {}\nS <- 'a' [b-c]* / \"d\" !.\n",
	"package g\ntype P Peg {}\nS <- <A+> { p.N++ } B?\nA <- [^a\\n]\nB <- &{ true } .\n",
	"# c\npackage g\nimport s \"strings\"\ntype P Peg { N int }\nS <- (A / B)* !.\nA <- '\\0x41' '\\101'\nB <- [[x-z]]\n",
}

// T2 returns every prefix and every single-edit neighbour (deletion, substitution, insertion from
// a menu) of the seed texts.
func T2(full bool) []TextCase {
	var out []TextCase
	seen := map[string]bool{}
	add := func(id, text string) {
		if seen[text] {
			return
		}
		seen[text] = true
		out = append(out, TextCase{ID: id, Family: "T2", Text: text})
	}
	seeds := t2Seeds
	if !full {
		seeds = seeds[:2]
	}
	for si, seed := range seeds {
		add(fmt.Sprintf("T2/%d", si), seed)
		for i := 0; i <= len(seed); i++ {
			add(fmt.Sprintf("T2/%d/prefix%d", si, i), seed[:i])
			if i < len(seed) {
				add(fmt.Sprintf("T2/%d/del%d", si, i), seed[:i]+seed[i+1:])
			}
			menu := t2Menu
			if !full {
				menu = t2Menu[:10]
			}
			for _, m := range menu {
				add(fmt.Sprintf("T2/%d/ins%d%q", si, i, m), seed[:i]+m+seed[i:])
				if i < len(seed) && full {
					add(fmt.Sprintf("T2/%d/sub%d%q", si, i, m), seed[:i]+m+seed[i+1:])
				}
			}
		}
	}
	return out
}
