package families

import (
	"encoding/hex"
	"fmt"
	"sort"
	"strings"

	"verif/internal/ag"
	"verif/internal/spec"
)

func strs(rs ...rune) []string {
	var out []string
	for _, r := range rs {
		out = append(out, string(r))
	}
	return out
}

// ---------------------------------------------------------------- F2: >=3-way choices (the -switch optimiser)

type altShape struct {
	name  string
	mk    func() *ag.Expr
	rules func() []ag.Rule
}

func lit(s string) *ag.Expr    { return ag.L(s) }
func rng(lo, hi rune) *ag.Expr { return ag.C(ag.R(lo, hi)) }

func f2Pool() []altShape {
	rR := func() []ag.Rule { return []ag.Rule{{Name: "R", Body: ag.S(lit("a"), lit("b"))}} }
	return []altShape{
		{"a", func() *ag.Expr { return lit("a") }, nil},
		{"[e-k]", func() *ag.Expr { return rng('e', 'k') }, nil},
		{"a?b", func() *ag.Expr { return ag.S(ag.U(ag.Opt, lit("a")), lit("b")) }, nil},
		{"&a b", func() *ag.Expr { return ag.S(ag.U(ag.And, lit("a")), lit("b")) }, nil},
		{"[a-b]c", func() *ag.Expr { return ag.S(rng('a', 'b'), lit("c")) }, nil},
		{"a*", func() *ag.Expr { return ag.U(ag.Star, lit("a")) }, nil},
		{"(ax/by)", func() *ag.Expr { return ag.A(ag.S(lit("a"), lit("x")), ag.S(lit("b"), lit("y"))) }, nil},
		{"R", func() *ag.Expr { return ag.N("R") }, rR},
		// ---- the rest of the pool (thorough)
		{"ba", func() *ag.Expr { return ag.S(lit("b"), lit("a")) }, nil},
		{"[b-c]", func() *ag.Expr { return rng('b', 'c') }, nil},
		{"[a-b]?c", func() *ag.Expr { return ag.S(ag.U(ag.Opt, rng('a', 'b')), lit("c")) }, nil},
		{"a*b", func() *ag.Expr { return ag.S(ag.U(ag.Star, lit("a")), lit("b")) }, nil},
		{"a+", func() *ag.Expr { return ag.U(ag.Plus, lit("a")) }, nil},
		{"&a a", func() *ag.Expr { return ag.S(ag.U(ag.And, lit("a")), lit("a")) }, nil},
		{"!a b", func() *ag.Expr { return ag.S(ag.U(ag.Not, lit("a")), lit("b")) }, nil},
		{"!a .", func() *ag.Expr { return ag.S(ag.U(ag.Not, lit("a")), ag.D()) }, nil},
		{"(a/b)c", func() *ag.Expr { return ag.S(ag.A(lit("a"), lit("b")), lit("c")) }, nil},
		{"<a>b", func() *ag.Expr { return ag.S(ag.U(ag.Cap, lit("a")), lit("b")) }, nil},
		{"{}a", func() *ag.Expr { return ag.S(ag.Action(), lit("a")) }, nil},
		{"{}", func() *ag.Expr { return ag.Action() }, nil},
		{"RR", func() *ag.Expr { return ag.S(ag.N("R"), ag.N("R")) }, rR},
		{"[e-k]x", func() *ag.Expr { return ag.S(rng('e', 'k'), lit("x")) }, nil},
	}
}

// f2DisjointPool: one shape per first-set situation, each over its own letters, so that most
// tuples are pairwise disjoint and really are rewritten into a switch (in f2Pool most shapes
// start with a or b and end up in the ordered part of the choice).
func f2DisjointPool() []altShape {
	rT := func() []ag.Rule { return []ag.Rule{{Name: "R", Body: ag.S(lit("t"), lit("u"))}} }
	return []altShape{
		{"a", func() *ag.Expr { return lit("a") }, nil},
		{"[e-k]", func() *ag.Expr { return rng('e', 'k') }, nil},
		{"b?c", func() *ag.Expr { return ag.S(ag.U(ag.Opt, lit("b")), lit("c")) }, nil},
		{"&l m", func() *ag.Expr { return ag.S(ag.U(ag.And, lit("l")), lit("m")) }, nil},
		{"[n-o]?p", func() *ag.Expr { return ag.S(ag.U(ag.Opt, rng('n', 'o')), lit("p")) }, nil},
		{"q*d", func() *ag.Expr { return ag.S(ag.U(ag.Star, lit("q")), lit("d")) }, nil},
		{"(rx/sy)", func() *ag.Expr { return ag.A(ag.S(lit("r"), lit("x")), ag.S(lit("s"), lit("y"))) }, nil},
		{"R", func() *ag.Expr { return ag.N("R") }, rT},
		{"(ww)?w", func() *ag.Expr { return ag.S(ag.U(ag.Opt, ag.S(lit("w"), lit("w"))), lit("w")) }, nil},
		// thorough
		{"!l v", func() *ag.Expr { return ag.S(ag.U(ag.Not, lit("l")), lit("v")) }, nil},
		{"<w>x", func() *ag.Expr { return ag.S(ag.U(ag.Cap, lit("w")), lit("x")) }, nil},
		{"{}y", func() *ag.Expr { return ag.S(ag.Action(), lit("y")) }, nil},
		{"R?z", func() *ag.Expr { return ag.S(ag.U(ag.Opt, ag.N("R")), lit("z")) }, rT},
		{"({}A)?B", func() *ag.Expr { return ag.S(ag.U(ag.Opt, ag.S(ag.Action(), lit("A"))), lit("B")) }, nil},
		{"<C?>{}D", func() *ag.Expr { return ag.S(ag.U(ag.Cap, ag.U(ag.Opt, lit("C"))), ag.Action(), lit("D")) }, nil},
	}
}

// F2D: like F2 (plain context) over the disjoint pool.
func F2D(m, poolN, maxLen int, variants []string) []*Case {
	pool := f2DisjointPool()
	if poolN < len(pool) {
		pool = pool[:poolN]
	}
	var out []*Case
	idx := 0
	tuple := make([]int, m)
	var rec func(i int)
	rec = func(i int) {
		if i == m {
			var alts []*ag.Expr
			needR := false
			for _, k := range tuple {
				alts = append(alts, pool[k].mk())
				if pool[k].rules != nil {
					needR = true
				}
			}
			g := ag.G(fmt.Sprintf("F2D/%d", idx), ag.Rule{Name: "S", Body: ag.S(ag.A(alts...), ag.U(ag.Not, ag.D()))})
			idx++
			if needR {
				g.Rules = append(g.Rules, ag.Rule{Name: "R", Body: ag.S(lit("t"), lit("u"))})
			}
			g.Number()
			if !wellFormed(g) {
				return
			}
			out = append(out, &Case{Family: "F2D", G: g, Sigma: sigmaOf(g, 9, '0'), MaxLen: maxLen, Variants: variants, Mode: spec.ModeBehaviour})
			return
		}
		for k := range pool {
			tuple[i] = k
			rec(i + 1)
		}
	}
	rec(0)
	return out
}

// F2 enumerates S <- ctx(A1 / ... / Am) !. for all m-tuples over the first poolN shapes,
// optionally with a trailing empty alternative, in the given contexts.
// contexts: "plain", "star", "after", "peek", "outer"
func F2(m, poolN int, contexts []string, withEmpty bool, maxLen int, variants []string) []*Case {
	pool := f2Pool()
	if poolN < len(pool) {
		pool = pool[:poolN]
	}
	var out []*Case
	idx := 0
	tuple := make([]int, m)
	var rec func(i int)
	emit := func(ctx string, empty bool) {
		var alts []*ag.Expr
		rules := map[string]ag.Rule{}
		for _, k := range tuple {
			alts = append(alts, pool[k].mk())
			if pool[k].rules != nil {
				for _, r := range pool[k].rules() {
					rules[r.Name] = r
				}
			}
		}
		if empty {
			alts = append(alts, ag.E())
		}
		choice := ag.A(alts...)
		var body *ag.Expr
		switch ctx {
		case "plain":
			body = ag.S(choice, ag.U(ag.Not, ag.D()))
		case "star":
			body = ag.S(ag.U(ag.Star, choice), ag.U(ag.Not, ag.D()))
		case "after":
			body = ag.S(lit("x"), choice, ag.U(ag.Not, ag.D()))
		case "peek":
			body = ag.S(ag.U(ag.And, choice), ag.D())
		case "outer":
			body = ag.S(ag.A(lit("y"), choice, ag.S(lit("x"), lit("y"))), ag.U(ag.Not, ag.D()))
		}
		g := ag.G(fmt.Sprintf("F2/%s/%d", ctx, idx), ag.Rule{Name: "S", Body: body})
		idx++
		for _, n := range []string{"R"} {
			if r, ok := rules[n]; ok {
				g.Rules = append(g.Rules, r)
			}
		}
		g.Number()
		if !wellFormed(g) {
			return
		}
		out = append(out, &Case{Family: "F2", G: g, Sigma: sigmaOf(g, 6, 'z'), MaxLen: maxLen, Variants: variants, Mode: spec.ModeBehaviour})
	}
	rec = func(i int) {
		if i == m {
			for _, ctx := range contexts {
				emit(ctx, false)
				if withEmpty {
					emit(ctx, true)
				}
			}
			return
		}
		for k := range pool {
			tuple[i] = k
			rec(i + 1)
		}
	}
	rec(0)
	return out
}

// ---------------------------------------------------------------- F3: multi-rule grammars

func F3(maxLen int, variants []string) []*Case {
	A, B, S := func() *ag.Expr { return ag.N("A") }, func() *ag.Expr { return ag.N("B") }, func() *ag.Expr { return ag.N("S") }
	sBodies := []func() *ag.Expr{
		func() *ag.Expr { return A() },
		func() *ag.Expr { return ag.S(A(), B()) },
		func() *ag.Expr { return ag.A(A(), B()) },
		func() *ag.Expr { return ag.A(ag.S(A(), lit("c")), B()) },
		func() *ag.Expr { return ag.S(ag.U(ag.Star, A()), B()) },
		func() *ag.Expr { return ag.S(ag.U(ag.Opt, A()), B()) },
		func() *ag.Expr { return ag.S(ag.U(ag.And, A()), B()) },
		func() *ag.Expr { return ag.S(ag.U(ag.Not, A()), B()) },
		func() *ag.Expr { return ag.S(ag.U(ag.Cap, A()), B()) },
		func() *ag.Expr { return ag.A(ag.S(lit("a"), A()), lit("b")) },
		func() *ag.Expr { return ag.S(A(), A()) },
		func() *ag.Expr { return ag.U(ag.Plus, ag.A(A(), lit("c"))) },
		func() *ag.Expr { return ag.A(ag.S(A(), lit("x")), ag.S(A(), lit("y")), ag.S(B(), A())) },
	}
	aBodies := []func() *ag.Expr{
		func() *ag.Expr { return lit("a") },
		func() *ag.Expr { return ag.A(ag.S(lit("a"), lit("b")), lit("a")) },
		func() *ag.Expr { return ag.S(lit("a"), ag.U(ag.Opt, B())) },
		func() *ag.Expr { return ag.U(ag.Cap, ag.U(ag.Plus, lit("a"))) },
		func() *ag.Expr { return ag.A(ag.S(lit("a"), S(), lit("b")), lit("a")) },
		func() *ag.Expr { return ag.S(lit("a"), ag.Action()) },
	}
	bBodies := []func() *ag.Expr{
		func() *ag.Expr { return lit("b") },
		func() *ag.Expr { return ag.U(ag.Opt, lit("b")) },
		func() *ag.Expr { return rng('a', 'b') },
		func() *ag.Expr { return ag.S(ag.Action(), lit("b")) },
		func() *ag.Expr { return ag.S(A(), lit("b")) },
		func() *ag.Expr { return ag.E() },
	}
	var out []*Case
	idx := 0
	seen := map[string]bool{}
	for _, sb := range sBodies {
		for _, ab := range aBodies {
			for _, bb := range bBodies {
				for _, withB := range []bool{true, false} {
					g := ag.G(fmt.Sprintf("F3/%d", idx), ag.Rule{Name: "S", Body: sb()}, ag.Rule{Name: "A", Body: ab()})
					if withB {
						g.Rules = append(g.Rules, ag.Rule{Name: "B", Body: bb()})
					}
					idx++
					g.Number()
					if !wellFormed(g) {
						continue
					}
					key := ag.Show(g)
					if seen[key] {
						continue
					}
					seen[key] = true
					out = append(out, &Case{Family: "F3", G: g, Sigma: sigmaOf(g, 4, 'z'), MaxLen: maxLen, Variants: variants, Mode: spec.ModeBehaviour})
				}
			}
		}
	}
	return out
}

// ---------------------------------------------------------------- F4: terminal zoo

func F4(maxLen int, variants []string) []*Case {
	ci := func(items ...ag.Item) *ag.Expr { return &ag.Expr{K: ag.Class, Items: items, CI: true} }
	cin := func(items ...ag.Item) *ag.Expr { return &ag.Expr{K: ag.Class, Items: items, CI: true, Neg: true} }
	one := func(c rune) ag.Item { return ag.R(c, c) }
	zoo := []func() *ag.Expr{
		func() *ag.Expr { return lit("ab") },
		func() *ag.Expr { return lit("aba") },
		func() *ag.Expr { return ag.LI("aB") },
		func() *ag.Expr { return ag.LI("a1") },
		func() *ag.Expr { return rng('b', 'c') },
		func() *ag.Expr { return ag.C(ag.R('a', 'c'), one('e')) },
		func() *ag.Expr { return ag.C(one('a'), one('c')) },
		func() *ag.Expr { return ag.CN(ag.R('b', 'c')) },
		func() *ag.Expr { return ag.CN(one('a')) },
		func() *ag.Expr { return ag.CN(one('a'), ag.R('c', 'd')) },
		func() *ag.Expr { return ci(ag.R('b', 'c')) },
		func() *ag.Expr { return ci(ag.R('B', 'C')) },
		func() *ag.Expr { return ci(one('b')) },
		func() *ag.Expr { return cin(one('b')) },
		func() *ag.Expr { return ag.D() },
		func() *ag.Expr { return lit("\n") },
		func() *ag.Expr { return lit("\t\r") },
		func() *ag.Expr { return lit("\\") },
		func() *ag.Expr { return lit("'") },
		func() *ag.Expr { return lit("\"") },
		func() *ag.Expr { return lit("[]") },
		func() *ag.Expr { return lit("-") },
		func() *ag.Expr { return ag.C(one('-'), one(']')) },
		func() *ag.Expr { return ag.C(one('['), one('\\')) },
		func() *ag.Expr { return ag.C(one('^')) },
		func() *ag.Expr { return lit("\x00") },
		func() *ag.Expr { return lit("\x7f") },
		func() *ag.Expr { return lit("\a\b\x1b\f\v") },
		func() *ag.Expr { return lit("\U0010FFFF") },
		func() *ag.Expr { return lit("�") },
		func() *ag.Expr { return ag.C(ag.R(0, 'a')) },
		func() *ag.Expr { return ag.C(ag.R('y', 0x10FFFF)) },
		func() *ag.Expr { return ag.CN(ag.R(0, 'a')) },
		func() *ag.Expr { return lit("é汉") },
		func() *ag.Expr { return ag.C(ag.R('à', 'ü')) },
		func() *ag.Expr { return ag.LI("z") },
		// reversed ranges denote the empty set
		func() *ag.Expr { return ag.C(ag.R('z', 'a')) },
		func() *ag.Expr { return ag.C(ag.R('9', '0'), one('b')) },
		func() *ag.Expr { return ag.CN(ag.R('z', 'a')) },
		func() *ag.Expr { return ag.C(ag.R('a', 'c'), ag.R('z', 'y')) },
		// members that overlap, contain each other or touch
		func() *ag.Expr { return ag.C(ag.R('a', 'z'), one('m')) },
		func() *ag.Expr { return ag.C(ag.R('a', 'e'), ag.R('c', 'd'), one('_')) },
		func() *ag.Expr { return ag.C(ag.R('c', 'f'), ag.R('a', 'd')) },
		func() *ag.Expr { return ag.CN(ag.R('a', 'z'), one('m')) },
		func() *ag.Expr { return ci(ag.R('a', 'z'), one('Q')) },
		func() *ag.Expr { return ag.C(ag.R('a', 'c'), ag.R('d', 'f'), one('b'), one('b')) },
	}
	var out []*Case
	idx := 0
	add := func(e *ag.Expr) {
		g := single("F4", idx, e)
		idx++
		if !wellFormed(g) {
			return
		}
		out = append(out, &Case{Family: "F4", G: g, Sigma: sigmaOf(g, 6, 'q'), MaxLen: maxLen, Variants: variants, Mode: spec.ModeBehaviour})
	}
	for _, z := range zoo {
		add(z())
		add(ag.S(z(), ag.U(ag.Not, ag.D())))
		add(ag.U(ag.Star, z()))
		add(ag.A(z(), lit("q"), ag.S(z(), z())))
	}
	return out
}

// ---------------------------------------------------------------- F5: memoisation shapes

func F5(maxLen int, variants []string) []*Case {
	R := func() *ag.Expr { return ag.N("R") }
	xs := []func() *ag.Expr{
		func() *ag.Expr { return R() },
		func() *ag.Expr { return ag.S(ag.U(ag.And, R()), R()) },
		func() *ag.Expr { return ag.S(ag.N("Q"), R()) },
		func() *ag.Expr { return ag.N("T") },
		func() *ag.Expr { return ag.S(ag.U(ag.Not, ag.S(R(), lit("z"))), R()) },
		func() *ag.Expr { return ag.S(R(), R()) },
	}
	tails := []func() *ag.Expr{
		func() *ag.Expr { return lit("x") },
		func() *ag.Expr { return lit("y") },
		func() *ag.Expr { return ag.U(ag.Opt, lit("c")) },
	}
	var out []*Case
	idx := 0
	for i := range xs {
		for j := range xs {
			for k := range xs {
				g := ag.G(fmt.Sprintf("F5/%d", idx),
					ag.Rule{Name: "S", Body: ag.A(ag.S(xs[i](), tails[0]()), ag.S(xs[j](), tails[1]()), ag.S(xs[k](), tails[2]()))},
					ag.Rule{Name: "R", Body: ag.U(ag.Cap, ag.S(lit("a"), ag.U(ag.Opt, ag.N("B"))))},
					ag.Rule{Name: "B", Body: ag.S(lit("b"), ag.Action())},
					ag.Rule{Name: "Q", Body: ag.U(ag.And, ag.D())},
					ag.Rule{Name: "T", Body: ag.S(R(), ag.U(ag.Opt, lit("c")))},
				)
				idx++
				// drop unreachable helper rules
				reach := ag.Analyze(g).Reachable()
				var keep []ag.Rule
				for _, r := range g.Rules {
					if reach[r.Name] {
						keep = append(keep, r)
					}
				}
				g.Rules = keep
				g.Number()
				if !wellFormed(g) {
					continue
				}
				out = append(out, &Case{Family: "F5", G: g, Sigma: strs('a', 'b', 'x', 'y', 'c'), MaxLen: maxLen, Variants: variants, Mode: spec.ModeBehaviour})
			}
		}
	}
	return out
}

// ---------------------------------------------------------------- F6: actions and captures everywhere

func F6(maxSize, maxLen int, variants []string) []*Case {
	s := &Spec{
		// one multi-byte and one ASCII terminal: rune offsets differ from byte offsets
		Leaves: func() []*ag.Expr { return []*ag.Expr{lit("é"), lit("b"), ag.Action()} },
		Unary:  []ag.Kind{ag.Opt, ag.Star, ag.Plus, ag.And, ag.Not, ag.Cap},
		Seq:    true, Alt: true, AltEmpty: false, MaxArity: 3,
	}
	var out []*Case
	idx := 0
	for _, e := range s.UpTo(maxSize) {
		g := single("F6", idx, e)
		idx++
		if !g.Has(ag.Act) && !g.Has(ag.Cap) {
			continue // covered by F1
		}
		if !wellFormed(g) {
			continue
		}
		out = append(out, &Case{Family: "F6", G: g, Sigma: []string{"é", "b", "c"}, MaxLen: maxLen, Variants: variants, Mode: spec.ModeBehaviour, Print: idx%7 == 0})
	}
	return out
}

// ---------------------------------------------------------------- F7: multi-byte runes

func F7(maxSize, maxLen int, variants []string) []*Case {
	s := &Spec{
		Leaves: func() []*ag.Expr { return []*ag.Expr{lit("é"), lit("汉"), rng('à', 'ü'), ag.D()} },
		Unary:  []ag.Kind{ag.Opt, ag.Star, ag.Plus, ag.And, ag.Not, ag.Cap},
		Seq:    true, Alt: true, AltEmpty: true, MaxArity: 3,
	}
	var out []*Case
	idx := 0
	for _, e := range s.UpTo(maxSize) {
		g := single("F7", idx, e)
		idx++
		if !wellFormed(g) {
			continue
		}
		out = append(out, &Case{Family: "F7", G: g, Sigma: []string{"a", "é", "汉", "😀", "\uFEFF"}, MaxLen: maxLen, Variants: variants, Mode: spec.ModeBehaviour, Print: idx%5 == 0})
	}
	return out
}

// ---------------------------------------------------------------- F8: semantic predicates and state changes

func F8(maxSize, maxLen int, variants []string) []*Case {
	s := &Spec{
		Leaves: func() []*ag.Expr { return []*ag.Expr{lit("a"), ag.P(0), ag.P(1), ag.P(2), ag.SideE()} },
		Unary:  []ag.Kind{ag.Opt, ag.Star, ag.Plus, ag.And, ag.Not, ag.Cap},
		Seq:    true, Alt: true, AltEmpty: true, MaxArity: 3,
	}
	var out []*Case
	idx := 0
	for _, e := range s.UpTo(maxSize) {
		g := single("F8", idx, e)
		idx++
		if !g.Has(ag.Pred) && !g.Has(ag.Side) {
			continue
		}
		if !wellFormed(g) {
			continue
		}
		flags := []bool{false}
		uses := false
		g.Rules[0].Body.Walk(func(e *ag.Expr) {
			if e.K == ag.Pred && e.N == 2 {
				uses = true
			}
		})
		if uses {
			flags = []bool{false, true}
		}
		out = append(out, &Case{Family: "F8", G: g, Sigma: strs('a', 'c'), MaxLen: maxLen, Flags: flags, Variants: variants, Mode: spec.ModeBehaviour})
	}
	return out
}

// ---------------------------------------------------------------- F10: multi-line inputs (error positions)

func F10(maxSize, maxLen int, variants []string) []*Case {
	s := &Spec{
		Leaves: func() []*ag.Expr { return []*ag.Expr{lit("a"), lit("\n"), ag.D()} },
		Unary:  []ag.Kind{ag.Opt, ag.Star, ag.Plus, ag.Not, ag.Cap},
		Seq:    true, Alt: true, MaxArity: 3,
	}
	var out []*Case
	idx := 0
	for _, e := range s.UpTo(maxSize) {
		idx++
		if !ag.G("", ag.Rule{Name: "S", Body: e}).Has(ag.Cap) {
			continue // without a capture there is no token to report
		}
		// L <- e ; S <- L+ !.   gives rule tokens as well
		g := ag.G(fmt.Sprintf("F10/%d", idx), ag.Rule{Name: "S", Body: ag.S(ag.U(ag.Plus, ag.N("L")), ag.U(ag.Not, ag.D()))}, ag.Rule{Name: "L", Body: e.Clone()})
		g.Number()
		if !wellFormed(g) {
			continue
		}
		out = append(out, &Case{Family: "F10", G: g, Sigma: []string{"a", "\n", "x"}, MaxLen: maxLen, Variants: variants, Mode: spec.ModeBehaviour})
	}
	return out
}

// ---------------------------------------------------------------- hostile byte inputs (C13)

var HostileBytes = []string{"a", "b", "\x00", "\x80", "\xc3", "é", "\U00010000", "\U0010FFFF", "\uFEFF"}

func hexAll(ss []string) []string {
	out := make([]string, len(ss))
	for i, s := range ss {
		out[i] = hex.EncodeToString([]byte(s))
	}
	return out
}

// Hostile re-targets cases at the hostile byte alphabet.
func Hostile(cases []*Case, maxLen int, variants []string) []*Case {
	var out []*Case
	for _, c := range cases {
		g := c.G.Clone()
		g.ID = "H/" + g.ID
		out = append(out, &Case{Family: "H-" + c.Family, G: g, Sigma: hexAll(HostileBytes), Hex: true, MaxLen: maxLen, Variants: variants, Mode: spec.ModeHostile})
	}
	return out
}

// ---------------------------------------------------------------- F11: mutually recursive rules with choices

// F11 enumerates grammars S, E, R, T whose bodies are choices of 2-3 alternatives that refer to
// each other at left and inner positions (never left-recursively): the first sets the -switch
// optimiser needs depend on rules that are still being analysed when they are first reached.
func F11(poolN, maxLen int, variants []string) []*Case {
	type altMk func(y, z string) *ag.Expr
	pool := []altMk{
		func(y, z string) *ag.Expr { return ag.S(lit("a"), ag.N(y), lit("b")) },
		func(y, z string) *ag.Expr { return ag.S(ag.N(y), lit("d")) },
		func(y, z string) *ag.Expr { return ag.S(lit("b"), ag.N(z), lit("a")) },
		func(y, z string) *ag.Expr { return lit("c") },
		func(y, z string) *ag.Expr { return ag.S(ag.N(z), lit("c")) },
		func(y, z string) *ag.Expr { return ag.S(lit("a"), lit("d")) },
		func(y, z string) *ag.Expr { return lit("d") },
	}
	if poolN < len(pool) {
		pool = pool[:poolN]
	}
	// all ordered sub-lists (in pool order) of size 2 and 3
	var bodies [][]int
	for i := range pool {
		for j := i + 1; j < len(pool); j++ {
			bodies = append(bodies, []int{i, j})
			for k := j + 1; k < len(pool); k++ {
				bodies = append(bodies, []int{i, j, k})
			}
		}
	}
	names := []string{"E", "R", "T"}
	mkBody := func(b []int, self int) *ag.Expr {
		y, z := names[(self+1)%3], names[(self+2)%3]
		var alts []*ag.Expr
		for _, k := range b {
			alts = append(alts, pool[k](y, z))
		}
		return ag.A(alts...)
	}
	var out []*Case
	idx := 0
	for _, be := range bodies {
		for _, br := range bodies {
			for _, bt := range bodies {
				nd := func() *ag.Expr { return ag.U(ag.Not, ag.D()) }
				g := ag.G(fmt.Sprintf("F11/%d", idx),
					ag.Rule{Name: "S", Body: ag.A(ag.S(ag.N("E"), nd()), ag.S(ag.N("T"), nd()), ag.S(ag.N("R"), lit("b"), nd()))},
					ag.Rule{Name: "E", Body: mkBody(be, 0)},
					ag.Rule{Name: "R", Body: mkBody(br, 1)},
					ag.Rule{Name: "T", Body: mkBody(bt, 2)})
				idx++
				g.Number()
				if !wellFormed(g) {
					continue
				}
				out = append(out, &Case{Family: "F11", G: g, Sigma: strs('a', 'b', 'c', 'd'), MaxLen: maxLen, Variants: variants, Mode: spec.ModeBehaviour})
			}
		}
	}
	return out
}

// ---------------------------------------------------------------- F12: named rules that always / never / sometimes succeed

// F12: S refers to A (exactly once, so that -inline applies) in every operator context; A is
// drawn from shapes that always succeed, never succeed, succeed without consuming, or record
// tokens before failing; B is a helper. The generator special-cases references to rules that
// "always succeed" and inlines rules referenced once.
func F12(maxLen int, variants []string) []*Case {
	A, B := func() *ag.Expr { return ag.N("A") }, func() *ag.Expr { return ag.N("B") }
	a, b := func() *ag.Expr { return lit("a") }, func() *ag.Expr { return lit("b") }
	sBodies := []func() *ag.Expr{
		func() *ag.Expr { return ag.A(ag.S(A(), lit("x")), lit("y")) },
		func() *ag.Expr { return ag.A(ag.S(lit("x"), A(), lit("y")), ag.S(lit("x"), lit("a"))) },
		func() *ag.Expr { return ag.S(ag.U(ag.Not, A()), ag.D()) },
		func() *ag.Expr { return ag.A(ag.S(ag.U(ag.And, A()), lit("a")), lit("b")) },
		func() *ag.Expr { return ag.S(ag.U(ag.Opt, A()), lit("x")) },
		func() *ag.Expr { return ag.A(ag.S(ag.U(ag.Cap, A()), lit("x")), ag.S(lit("a"), lit("y"))) },
		func() *ag.Expr { return ag.S(ag.U(ag.Star, ag.S(lit("x"), A())), ag.U(ag.Not, ag.D())) },
		// a bare rule reference under * and +: the iteration that ends the loop may fail after consuming
		func() *ag.Expr { return ag.S(ag.U(ag.Star, A()), lit("b")) },
		func() *ag.Expr { return ag.A(ag.S(ag.U(ag.Plus, A()), lit("b")), lit("b")) },
	}
	aBodies := []func() *ag.Expr{
		func() *ag.Expr { return ag.U(ag.Not, ag.U(ag.Star, a())) },  // never
		func() *ag.Expr { return ag.U(ag.Not, ag.U(ag.Opt, B())) },   // never
		func() *ag.Expr { return ag.U(ag.And, ag.U(ag.Star, a())) },  // always, empty
		func() *ag.Expr { return ag.U(ag.Star, a()) },                // always
		func() *ag.Expr { return ag.A(a(), ag.E()) },                 // always
		func() *ag.Expr { return ag.Action() },                       // always, token
		func() *ag.Expr { return ag.U(ag.Not, B()) },                 // sometimes, empty
		func() *ag.Expr { return ag.U(ag.And, B()) },                 // sometimes, empty
		func() *ag.Expr { return ag.U(ag.Opt, B()) },                 // always
		func() *ag.Expr { return ag.U(ag.Cap, ag.U(ag.Star, a())) },  // always, token
		func() *ag.Expr { return ag.S(B(), lit("c")) },               // records a token, may fail after it
		func() *ag.Expr { return ag.S(ag.U(ag.Cap, b()), lit("c")) }, // records a token, may fail after it
		func() *ag.Expr { return ag.S(ag.Action(), b(), lit("c")) },  // records a token, may fail after it
		func() *ag.Expr { return ag.S(ag.U(ag.Not, ag.D())) },        // only at the end
		func() *ag.Expr { return ag.S(ag.U(ag.Opt, a()), ag.U(ag.Not, b())) },
	}
	bBodies := []func() *ag.Expr{
		func() *ag.Expr { return b() },
		func() *ag.Expr { return ag.U(ag.Star, b()) },
		func() *ag.Expr { return ag.A(b(), ag.E()) },
	}
	var out []*Case
	idx := 0
	seen := map[string]bool{}
	for _, sb := range sBodies {
		for _, ab := range aBodies {
			for _, bb := range bBodies {
				g := ag.G(fmt.Sprintf("F12/%d", idx), ag.Rule{Name: "S", Body: sb()}, ag.Rule{Name: "A", Body: ab()}, ag.Rule{Name: "B", Body: bb()})
				idx++
				reach := ag.Analyze(g).Reachable()
				var keep []ag.Rule
				for _, r := range g.Rules {
					if reach[r.Name] {
						keep = append(keep, r)
					}
				}
				g.Rules = keep
				g.Number()
				if !wellFormed(g) {
					continue
				}
				k := ag.Show(g)
				if seen[k] {
					continue
				}
				seen[k] = true
				out = append(out, &Case{Family: "F12", G: g, Sigma: strs('a', 'b', 'x', 'c'), MaxLen: maxLen, Variants: variants, Mode: spec.ModeBehaviour})
			}
		}
	}
	return out
}

// ---------------------------------------------------------------- F13: more than 256 rules, behaviourally

// F13 places two copies of memo-heavy helper rules at rule numbers that differ by exactly 256
// (k and 256+k), padded with reachable dummy rules, and lets S use both copies at adjacent
// offsets: rule numbers beyond 8 bits must not be confused by the memo table or the rule type.
func F13(maxLen int, variants []string, limit int) []*Case {
	type x struct{ mk func(s string) *ag.Expr }
	xs := []func(s string) *ag.Expr{
		func(s string) *ag.Expr { return ag.N("R" + s) },
		func(s string) *ag.Expr { return ag.S(lit("a"), ag.N("R"+s)) },
		func(s string) *ag.Expr { return ag.S(ag.U(ag.And, ag.N("R"+s)), ag.N("B"+s)) },
		func(s string) *ag.Expr { return ag.S(ag.N("B"+s), ag.N("R"+s)) },
	}
	var out []*Case
	idx := 0
	for i := range xs {
		for j := range xs {
			for _, order := range []string{"12", "21"} {
				for k := range xs {
					s1, s2 := string(order[0]), string(order[1])
					g := &ag.Grammar{ID: fmt.Sprintf("F13/%d", idx)}
					idx++
					// rule 1: S ; rules 2,3: R1,B1 ; then padding up to number 257 ; rules 258,259: R2,B2
					g.Rules = append(g.Rules, ag.Rule{Name: "S", Body: ag.A(
						ag.S(xs[i](s1), lit("x")), ag.S(xs[j](s2), lit("y")), ag.S(xs[k](s1), ag.U(ag.Opt, lit("c"))), ag.S(lit("q"), ag.N("Pad")))})
					g.Rules = append(g.Rules, ag.Rule{Name: "R1", Body: ag.U(ag.Cap, ag.S(lit("a"), ag.U(ag.Opt, ag.N("B1"))))}, ag.Rule{Name: "B1", Body: lit("b")})
					var pads []*ag.Expr
					for p := 0; p < 253; p++ {
						pads = append(pads, ag.N(fmt.Sprintf("P%d", p)))
					}
					g.Rules = append(g.Rules, ag.Rule{Name: "Pad", Body: ag.A(pads...)})
					for p := 0; p < 253; p++ {
						g.Rules = append(g.Rules, ag.Rule{Name: fmt.Sprintf("P%d", p), Body: ag.S(lit("p"), lit(string(rune('0'+p%10))))})
					}
					g.Rules = append(g.Rules, ag.Rule{Name: "R2", Body: ag.U(ag.Cap, ag.S(lit("a"), ag.U(ag.Opt, ag.N("B2"))))}, ag.Rule{Name: "B2", Body: lit("b")})
					g.Number()
					if !wellFormed(g) {
						continue
					}
					out = append(out, &Case{Family: "F13", G: g, Sigma: strs('a', 'b', 'x', 'y'), MaxLen: maxLen, Variants: variants, Mode: spec.ModeBehaviour, Entries: []string{"S", "R1", "B1", "R2", "B2", "P7", "P252"}})
				}
			}
		}
	}
	if limit > 0 && len(out) > limit {
		var pick []*Case
		for i := 0; i < limit; i++ {
			pick = append(pick, out[i*len(out)/limit])
		}
		out = pick
	}
	return out
}

// ---------------------------------------------------------------- F14: a choice directly under ? * +

func F14(maxLen int, variants []string) []*Case {
	alts := []func() *ag.Expr{
		func() *ag.Expr { return lit("x") },
		func() *ag.Expr { return ag.S(lit("a"), lit("b")) },
		func() *ag.Expr { return lit("a") },
		func() *ag.Expr { return ag.S(ag.U(ag.Cap, lit("a")), lit("b")) },
		func() *ag.Expr { return ag.S(ag.N("A"), lit("b")) },
		func() *ag.Expr { return ag.S(ag.Action(), lit("a"), lit("x")) },
	}
	tails := []func() *ag.Expr{
		func() *ag.Expr { return ag.S(lit("a"), lit("c")) },
		func() *ag.Expr { return ag.U(ag.Not, ag.D()) },
	}
	var out []*Case
	idx := 0
	for _, op := range []ag.Kind{ag.Opt, ag.Star, ag.Plus} {
		for i := range alts {
			for j := range alts {
				if i == j {
					continue
				}
				for _, t := range tails {
					g := ag.G(fmt.Sprintf("F14/%d", idx), ag.Rule{Name: "S", Body: ag.S(ag.U(op, ag.A(alts[i](), alts[j]())), t())}, ag.Rule{Name: "A", Body: lit("a")})
					idx++
					reach := ag.Analyze(g).Reachable()
					if !reach["A"] {
						g.Rules = g.Rules[:1]
					}
					g.Number()
					if !wellFormed(g) {
						continue
					}
					out = append(out, &Case{Family: "F14", G: g, Sigma: strs('a', 'b', 'x', 'c'), MaxLen: maxLen, Variants: variants, Mode: spec.ModeBehaviour})
				}
			}
		}
	}
	return out
}

// ---------------------------------------------------------------- F15: lookahead over a choice the -switch optimiser rewrites

func F15(maxLen int, variants []string) []*Case {
	bodies := []func(k string) *ag.Expr{
		func(k string) *ag.Expr { return ag.S(lit(k), ag.Action(), lit("1")) },
		func(k string) *ag.Expr { return ag.S(lit(k), ag.U(ag.Cap, lit("1"))) },
		func(k string) *ag.Expr { return ag.S(lit(k), ag.N("R")) },
		func(k string) *ag.Expr { return ag.S(lit(k), lit("1")) },
	}
	var out []*Case
	idx := 0
	for _, la := range []ag.Kind{ag.And, ag.Not} {
		for i := range bodies {
			for j := range bodies {
				for k := range bodies {
					choice := ag.A(bodies[i]("x"), bodies[j]("y"), bodies[k]("z"))
					body := ag.S(ag.U(la, choice), ag.D(), ag.U(ag.Opt, ag.D()), ag.Action())
					g := ag.G(fmt.Sprintf("F15/%d", idx), ag.Rule{Name: "S", Body: body}, ag.Rule{Name: "R", Body: ag.S(lit("1"), ag.Action())})
					idx++
					if !ag.Analyze(g).Reachable()["R"] {
						g.Rules = g.Rules[:1]
					}
					g.Number()
					if !wellFormed(g) {
						continue
					}
					out = append(out, &Case{Family: "F15", G: g, Sigma: strs('x', 'y', 'z', '1'), MaxLen: maxLen, Variants: variants, Mode: spec.ModeBehaviour})
				}
			}
		}
	}
	return out
}

// ---------------------------------------------------------------- NC: nested captures (the text an action sees)

func NestedCaptures(maxLen int, variants []string) []*Case {
	e, b, c := func() *ag.Expr { return lit("é") }, func() *ag.Expr { return lit("b") }, func() *ag.Expr { return lit("c") }
	cap := func(x *ag.Expr) *ag.Expr { return ag.U(ag.Cap, x) }
	act := ag.Action
	gs := []*ag.Grammar{
		ag.G("NC/0", ag.Rule{Name: "S", Body: ag.S(cap(ag.S(e(), cap(b()))), act())}),
		ag.G("NC/1", ag.Rule{Name: "S", Body: ag.S(cap(ag.S(e(), cap(b()), act(), c())), act())}),
		ag.G("NC/2", ag.Rule{Name: "S", Body: ag.S(cap(ag.S(e(), ag.U(ag.Opt, ag.S(cap(b()), c())))), act())}),
		ag.G("NC/3", ag.Rule{Name: "S", Body: ag.S(cap(ag.N("A")), act())}, ag.Rule{Name: "A", Body: ag.S(e(), ag.U(ag.Star, ag.S(b(), cap(c()), act())))}),
		ag.G("NC/4", ag.Rule{Name: "S", Body: ag.S(cap(ag.N("Sum")), act(), ag.U(ag.Not, ag.D()))}, ag.Rule{Name: "Sum", Body: ag.S(ag.N("T"), ag.U(ag.Star, ag.S(b(), ag.N("T"))))}, ag.Rule{Name: "T", Body: ag.S(cap(ag.U(ag.Plus, c())), act())}),
		ag.G("NC/5", ag.Rule{Name: "S", Body: ag.S(cap(ag.S(cap(e()), cap(b()))), act())}),
		ag.G("NC/6", ag.Rule{Name: "S", Body: ag.S(cap(ag.A(ag.S(e(), cap(b()), c()), ag.S(e(), b()))), act())}),
		ag.G("NC/7", ag.Rule{Name: "S", Body: ag.S(e(), cap(ag.S(b(), ag.U(ag.And, cap(c())))), act(), c())}),
		ag.G("NC/8", ag.Rule{Name: "S", Body: ag.U(ag.Plus, ag.S(cap(ag.S(e(), ag.U(ag.Opt, cap(b())))), act()))}),
		// an action right after a lookahead that completed (or completed and then failed) a capture
		ag.G("NC/9", ag.Rule{Name: "S", Body: ag.S(cap(e()), ag.U(ag.And, cap(b())), act(), b())}),
		ag.G("NC/10", ag.Rule{Name: "S", Body: ag.S(cap(e()), ag.U(ag.Not, ag.S(cap(b()), c())), act(), b())}),
		ag.G("NC/11", ag.Rule{Name: "S", Body: ag.S(ag.U(ag.Plus, ag.S(cap(ag.U(ag.Plus, b())), act(), ag.U(ag.Opt, c()))), ag.U(ag.Not, ag.D()))}),
		ag.G("NC/12", ag.Rule{Name: "S", Body: ag.S(ag.U(ag.Opt, ag.S(cap(b()), act())), ag.U(ag.Star, ag.S(cap(e()), act())))}),
		// captures that are empty, by construction or on some inputs, after a non-empty one
		ag.G("NC/13", ag.Rule{Name: "S", Body: ag.S(cap(e()), act(), cap(ag.E()), act(), ag.U(ag.Opt, b()))}),
		ag.G("NC/14", ag.Rule{Name: "S", Body: ag.U(ag.Plus, ag.S(cap(ag.U(ag.Plus, e())), act(), c(), cap(ag.U(ag.Star, b())), act(), ag.U(ag.Opt, c())))}),
		ag.G("NC/15", ag.Rule{Name: "S", Body: ag.S(cap(b()), act(), cap(ag.U(ag.Opt, e())), act(), cap(ag.U(ag.And, b())), act(), b())}),
	}
	var out []*Case
	for _, g := range gs {
		g.Number()
		if !wellFormed(g) {
			continue
		}
		out = append(out, &Case{Family: "NC", G: g, Sigma: []string{"é", "b", "c"}, MaxLen: maxLen, Variants: variants, Mode: spec.ModeBehaviour})
	}
	return out
}

// ---------------------------------------------------------------- F16: blank-like rules in front of inlined rules

// F16: Z always succeeds and may consume ('b'*), and is used several times (so it is called, not
// inlined); A is used exactly once right after a call of Z, in every save-point context.
func F16(maxLen int, variants []string) []*Case {
	Z, A := func() *ag.Expr { return ag.N("Z") }, func() *ag.Expr { return ag.N("A") }
	nd := func() *ag.Expr { return ag.U(ag.Not, ag.D()) }
	sBodies := []func() *ag.Expr{
		func() *ag.Expr { return ag.S(Z(), ag.U(ag.Star, ag.S(Z(), A())), Z(), nd()) },
		func() *ag.Expr { return ag.S(Z(), A(), Z()) },
		func() *ag.Expr { return ag.S(ag.A(ag.S(Z(), A()), lit("x")), Z()) },
		func() *ag.Expr { return ag.S(ag.U(ag.Opt, ag.S(Z(), A())), Z(), lit("x")) },
		func() *ag.Expr { return ag.S(ag.U(ag.Plus, ag.S(Z(), A())), Z()) },
		func() *ag.Expr { return ag.S(ag.U(ag.And, ag.S(Z(), A())), Z(), ag.D()) },
		func() *ag.Expr { return ag.S(ag.U(ag.Cap, ag.S(Z(), A())), ag.Action(), Z()) },
	}
	aBodies := []func() *ag.Expr{
		func() *ag.Expr { return ag.U(ag.Plus, lit("a")) },
		func() *ag.Expr { return ag.S(lit("a"), ag.U(ag.Cap, ag.U(ag.Opt, lit("a")))) },
		func() *ag.Expr { return ag.S(ag.Action(), lit("a")) },
	}
	zBodies := []func() *ag.Expr{
		func() *ag.Expr { return ag.U(ag.Star, lit("b")) },
		func() *ag.Expr { return ag.U(ag.Opt, lit("b")) },
		func() *ag.Expr { return ag.A(ag.S(lit("b"), lit("b")), ag.E()) },
	}
	var out []*Case
	idx := 0
	for _, sb := range sBodies {
		for _, ab := range aBodies {
			for _, zb := range zBodies {
				g := ag.G(fmt.Sprintf("F16/%d", idx), ag.Rule{Name: "S", Body: sb()}, ag.Rule{Name: "A", Body: ab()}, ag.Rule{Name: "Z", Body: zb()})
				idx++
				g.Number()
				if !wellFormed(g) {
					continue
				}
				out = append(out, &Case{Family: "F16", G: g, Sigma: strs('a', 'b', 'x'), MaxLen: maxLen, Variants: variants, Mode: spec.ModeBehaviour})
			}
		}
	}
	// guards: a rule that can never succeed (a negative lookahead over something that always succeeds)
	// or always succeeds, in front of an alternative with captures and actions; the next alternative
	// matches the same text. The guard is referenced twice, so it stays a call under -inline.
	guards := []func() *ag.Expr{
		func() *ag.Expr { return ag.S(ag.U(ag.Not, Z()), ag.Action()) },
		func() *ag.Expr { return ag.S(ag.U(ag.And, Z()), ag.Action()) },
		func() *ag.Expr { return ag.S(ag.U(ag.Not, ag.U(ag.Opt, lit("b"))), ag.Action()) },
		func() *ag.Expr { return ag.S(ag.U(ag.Not, ag.E()), ag.Action()) },
		func() *ag.Expr { return ag.U(ag.Not, ag.U(ag.Not, Z())) },
	}
	for _, gb := range guards {
		for _, zb := range zBodies {
			G := func() *ag.Expr { return ag.N("G") }
			item := ag.A(ag.S(G(), ag.U(ag.Cap, lit("a")), ag.Action()), ag.S(ag.U(ag.Cap, lit("a")), ag.Action()), ag.S(G(), lit("x")), lit("b"))
			g := ag.G(fmt.Sprintf("F16/%d", idx), ag.Rule{Name: "S", Body: ag.S(ag.U(ag.Plus, item), nd())}, ag.Rule{Name: "G", Body: gb()}, ag.Rule{Name: "Z", Body: zb()})
			idx++
			g.Number()
			if !wellFormed(g) {
				continue
			}
			out = append(out, &Case{Family: "F16", G: g, Sigma: strs('a', 'b', 'x'), MaxLen: maxLen, Variants: variants, Mode: spec.ModeBehaviour})
		}
	}
	return out
}

// ---------------------------------------------------------------- F4L: every letter, case-insensitively

// F4L: for every ASCII letter, the case-insensitive literal and class of that letter (written in
// either case) and a case-insensitive range ending/starting at it, on inputs over both cases of the
// letter, its neighbours, and the non-ASCII runes that Unicode case folding relates to ASCII letters
// (U+212A KELVIN SIGN, U+017F LONG S), which the documented ASCII case-insensitivity must not match.
func F4L(maxLen int, variants []string) []*Case {
	ci := func(items ...ag.Item) *ag.Expr { return &ag.Expr{K: ag.Class, Items: items, CI: true} }
	var out []*Case
	idx := 0
	for c := 'a'; c <= 'z'; c++ {
		u := c - 'a' + 'A'
		for _, e := range []*ag.Expr{
			ag.LI(string(c)), ag.LI(string(u)), ci(ag.R(c, c)), ci(ag.R(u, u)), ci(ag.R('a', c)), ci(ag.R(u, 'Z')),
		} {
			g := single("F4L", idx, ag.S(e, ag.U(ag.Not, ag.D())))
			idx++
			sigma := []string{string(c), string(u), "\u212a", "\u017f", "{", "@"}
			if c > 'a' {
				sigma = append(sigma, string(c-1))
			}
			if c < 'z' {
				sigma = append(sigma, string(u+1))
			}
			out = append(out, &Case{Family: "F4L", G: g, Sigma: sigma, MaxLen: maxLen, Variants: variants, Mode: spec.ModeBehaviour})
		}
	}
	return out
}

// ---------------------------------------------------------------- F17: many actions; F18: positions in multi-line text

// F17: more than ten actions and several captures in one grammar (action rules are numbered and
// named ActionN: two-digit numbers sort and print differently), in loops, after optional parts and
// in later alternatives.
func F17(maxLen int, variants []string) []*Case {
	a := ag.Action
	cp := func(e *ag.Expr) *ag.Expr { return ag.U(ag.Cap, e) }
	item := ag.A(
		ag.S(cp(lit("a")), a(), ag.U(ag.Opt, lit("b")), a()),
		ag.S(cp(ag.U(ag.Plus, lit("c"))), a(), a()),
		ag.S(lit("d"), a(), cp(lit("e")), a(), a()),
		ag.S(lit("f"), a(), a(), a(), a(), a(), a()),
	)
	g1 := ag.G("F17/0", ag.Rule{Name: "S", Body: ag.S(ag.U(ag.Plus, ag.N("I")), ag.U(ag.Not, ag.D()))}, ag.Rule{Name: "I", Body: item})
	g1.Number()
	// the same actions spread over twelve rules
	var rules []ag.Rule
	var alts []*ag.Expr
	for i := 0; i < 12; i++ {
		name := fmt.Sprintf("R%d", i)
		alts = append(alts, ag.N(name))
		c := string(rune('a' + i%6))
		body := ag.S(lit(c), lit(string(rune('a'+i/6))), a())
		if i%3 == 0 {
			body = ag.S(cp(lit(c)), lit(string(rune('a'+i/6))), a())
		}
		rules = append(rules, ag.Rule{Name: name, Body: body})
	}
	g2 := ag.G("F17/1", append([]ag.Rule{{Name: "S", Body: ag.S(ag.U(ag.Plus, ag.A(alts...)), ag.U(ag.Not, ag.D()))}}, rules...)...)
	g2.Number()
	var out []*Case
	for _, g := range []*ag.Grammar{g1, g2} {
		if wellFormed(g) {
			out = append(out, &Case{Family: "F17", G: g, Sigma: strs('a', 'b', 'c', 'd', 'e', 'f'), MaxLen: maxLen, Variants: variants, Mode: spec.ModeBehaviour, Entries: []string{"I", "R0", "R11"}})
		}
	}
	return out
}

// F18: tokens that begin and end on different lines of multi-byte text, failures on every line
// and column (the error message reports 1-based line and column of both ends).
func F18(maxLen int, variants []string) []*Case {
	w := func() *ag.Expr { return ag.U(ag.Plus, ag.A(lit("a"), lit("é"))) }
	g1 := ag.G("F18/0",
		ag.Rule{Name: "S", Body: ag.S(ag.N("P"), lit("x"), ag.U(ag.Not, ag.D()))},
		ag.Rule{Name: "P", Body: ag.U(ag.Plus, ag.S(ag.N("W"), ag.N("N")))},
		ag.Rule{Name: "W", Body: w()},
		ag.Rule{Name: "N", Body: lit("\n")})
	g2 := ag.G("F18/1",
		ag.Rule{Name: "S", Body: ag.S(ag.U(ag.Star, ag.N("L")), lit("x"))},
		ag.Rule{Name: "L", Body: ag.S(ag.U(ag.Star, ag.N("W")), ag.U(ag.Cap, lit("\n")))},
		ag.Rule{Name: "W", Body: ag.A(lit("a"), lit("é"), ag.S(lit("\r"), ag.U(ag.And, lit("\n"))))})
	// runes that some tools treat as line ends (NEL, LINE SEPARATOR, form feed): for peg only \n starts a line
	g3 := ag.G("F18/2",
		ag.Rule{Name: "S", Body: ag.S(ag.U(ag.Plus, ag.N("W")), lit("x"), ag.U(ag.Not, ag.D()))},
		ag.Rule{Name: "W", Body: ag.A(lit("a"), lit("\u2028"), lit("\u0085"), lit("\f"), lit("\n"))})
	var out []*Case
	for _, g := range []*ag.Grammar{g1, g2, g3} {
		g.Number()
		if wellFormed(g) {
			sigma := []string{"a", "é", "\n", "x"}
			if g == g2 {
				sigma = append(sigma, "\r")
			}
			if g == g3 {
				sigma = []string{"a", "\u2028", "\u0085", "\f", "\n", "x"}
			}
			out = append(out, &Case{Family: "F18", G: g, Sigma: sigma, MaxLen: maxLen, Variants: variants, Mode: spec.ModeBehaviour, Entries: []string{"P", "L"}})
		}
	}
	return out
}

// ---------------------------------------------------------------- F19: choices over wide classes

// F19: ordered choices of three pairwise disjoint classes that are wide (thousands of code points),
// start at 0, end at U+10FFFF or span the surrogate block - the -switch pass turns the smaller ones
// into case labels by enumerating code points. Inputs over all range ends and their neighbours
// (incl. U+D7FF, U+E000, U+E001).
func F19(maxLen int, variants []string) []*Case {
	pool := []func() *ag.Expr{
		func() *ag.Expr { return rng('a', 'z') },
		func() *ag.Expr { return rng(0x100, 0x1FFF) },
		func() *ag.Expr { return rng(0xD000, 0xE0FF) },
		func() *ag.Expr { return rng(0xE100, 0x10FFFF) },
		func() *ag.Expr { return rng(0, 0x20) },
		func() *ag.Expr { return rng(0x2000, 0xCFFF) },
		func() *ag.Expr { return ag.C(ag.R(0x80, 0xFF), ag.R('A', 'Z')) },
	}
	var out []*Case
	idx := 0
	for i := range pool {
		for j := range pool {
			for k := range pool {
				if i == j || j == k || i == k {
					continue
				}
				g := single("F19", idx, ag.S(ag.A(pool[i](), pool[j](), pool[k]()), ag.U(ag.Opt, lit("y")), ag.U(ag.Not, ag.D())))
				idx++
				out = append(out, &Case{Family: "F19", G: g, Sigma: sigmaOf(g, 24, 'y'), MaxLen: maxLen, Variants: variants, Mode: spec.ModeBehaviour})
			}
		}
	}
	return out
}

// ---------------------------------------------------------------- F20: text that is hostile to printers

// F20: accepted inputs containing printf verbs, quotes, backslashes and control characters, printed
// through every printer including PrintSyntaxTree on standard output (plain and Pretty).
func F20(maxLen int, variants []string) []*Case {
	var out []*Case
	for i, sigma := range [][]string{{"%", "d", "s", "!"}, {"\"", "\\", "n", "'"}, {"\n", "\t", "\x00", "é"}, {"%", "v", "(", "\x1b"}} {
		var alts []*ag.Expr
		for _, c := range sigma {
			alts = append(alts, lit(c))
		}
		g := ag.G(fmt.Sprintf("F20/%d", i),
			ag.Rule{Name: "S", Body: ag.S(ag.U(ag.Plus, ag.N("W")), ag.U(ag.Not, ag.D()))},
			ag.Rule{Name: "W", Body: ag.S(ag.N("C"), ag.U(ag.Opt, ag.N("C")))},
			ag.Rule{Name: "C", Body: ag.A(alts...)})
		g.Number()
		out = append(out, &Case{Family: "F20", G: g, Sigma: sigma, MaxLen: maxLen, Variants: variants, Mode: spec.ModeBehaviour, Print: true, Entries: []string{"W"}})
	}
	return out
}

// ---------------------------------------------------------------- F21: elements that emit no code

// F21: sequences containing elements for which the generator emits nothing (the empty group "()",
// alone, first, between and last) next to optional and repeated elements, as alternatives of a
// three-way choice with pairwise disjoint first sets (a switch under -switch) and as a plain body.
func F21(maxLen int, variants []string) []*Case {
	e := ag.E
	opt := func(s string) *ag.Expr { return ag.U(ag.Opt, lit(s)) }
	shapes := []func() *ag.Expr{
		func() *ag.Expr { return ag.S(lit("a"), opt("b"), e()) },
		func() *ag.Expr { return ag.S(lit("a"), e(), opt("b")) },
		func() *ag.Expr { return ag.S(e(), lit("a"), opt("b")) },
		func() *ag.Expr { return ag.S(lit("a"), ag.U(ag.Star, lit("b")), e(), e()) },
		func() *ag.Expr { return ag.S(lit("a"), ag.A(lit("b"), e()), e()) },
		func() *ag.Expr { return ag.S(lit("a"), ag.U(ag.Opt, ag.S(lit("b"), e())), ag.U(ag.Opt, e())) },
		func() *ag.Expr { return ag.S(lit("a"), ag.U(ag.Cap, e()), opt("b"), ag.U(ag.And, e())) },
		func() *ag.Expr { return ag.S(lit("a"), ag.U(ag.Plus, ag.S(lit("b"), e())), e()) },
	}
	var out []*Case
	idx := 0
	for _, sh := range shapes {
		for pos := 0; pos < 3; pos++ {
			alts := []*ag.Expr{ag.S(lit("c"), lit("d")), ag.S(lit("e"), ag.A(lit("f"), lit("g")))}
			alts = append(alts[:pos], append([]*ag.Expr{sh()}, alts[pos:]...)...)
			g := single("F21", idx, ag.S(ag.A(alts...), ag.U(ag.Not, ag.D())))
			idx++
			if wellFormed(g) {
				out = append(out, &Case{Family: "F21", G: g, Sigma: strs('a', 'b', 'c', 'd', 'e', 'f'), MaxLen: maxLen, Variants: variants, Mode: spec.ModeBehaviour})
			}
		}
		g := single("F21", idx, ag.S(sh(), ag.U(ag.Not, ag.D())))
		idx++
		if wellFormed(g) {
			out = append(out, &Case{Family: "F21", G: g, Sigma: strs('a', 'b', 'c'), MaxLen: maxLen, Variants: variants, Mode: spec.ModeBehaviour})
		}
	}
	return out
}

// ---------------------------------------------------------------- F22: deep and long derivations

// F22: derivations that are deep (nesting beyond 64 and 128 levels) or long (more than 4096 and
// 65536 tokens, with a rule re-entered at the same offset after backtracking). Inputs are given
// explicitly; the reference interpreter evaluates them like any other.
func F22(variants []string, thorough bool) []*Case {
	var out []*Case
	nest := ag.G("F22/nest",
		ag.Rule{Name: "S", Body: ag.S(ag.N("E"), ag.U(ag.Not, ag.D()))},
		ag.Rule{Name: "E", Body: ag.A(ag.S(lit("("), ag.N("E"), lit(")")), ag.S(ag.U(ag.Cap, lit("x")), ag.Action()))})
	nest.Number()
	var deep []string
	for _, d := range []int{62, 63, 64, 65, 66, 127, 128, 129, 300} {
		deep = append(deep, strings.Repeat("(", d)+"x"+strings.Repeat(")", d), strings.Repeat("(", d)+"x"+strings.Repeat(")", d-1))
	}
	out = append(out, &Case{Family: "F22", G: nest, Sigma: strs('(', 'x', ')'), MaxLen: 2, Extra: deep, Variants: variants, Mode: spec.ModeBehaviour, Print: true, Entries: []string{"E"}})
	right := ag.G("F22/right",
		ag.Rule{Name: "S", Body: ag.S(ag.N("L"), ag.U(ag.Not, ag.D()))},
		ag.Rule{Name: "L", Body: ag.S(ag.N("I"), ag.U(ag.Opt, ag.N("L")))},
		ag.Rule{Name: "I", Body: lit("a")})
	right.Number()
	out = append(out, &Case{Family: "F22", G: right, Sigma: strs('a', 'b'), MaxLen: 2, Extra: []string{strings.Repeat("a", 64), strings.Repeat("a", 65), strings.Repeat("a", 70) + "b", strings.Repeat("a", 200)}, Variants: variants, Mode: spec.ModeBehaviour, Entries: []string{"L"}})
	long := ag.G("F22/long",
		ag.Rule{Name: "S", Body: ag.A(ag.S(ag.N("List"), lit(";"), ag.U(ag.Not, ag.D())), ag.S(ag.N("List"), lit("."), ag.U(ag.Not, ag.D())))},
		ag.Rule{Name: "List", Body: ag.U(ag.Star, ag.N("Item"))},
		ag.Rule{Name: "Item", Body: rng('a', 'c')})
	long.Number()
	lens := []int{255, 256, 4095, 4096, 4097, 5000}
	if thorough {
		lens = append(lens, 65535, 65536, 70000)
	}
	var longs []string
	for _, n := range lens {
		longs = append(longs, strings.Repeat("a", n)+".", strings.Repeat("ab", n/2)+";", strings.Repeat("a", n)+"!")
	}
	out = append(out, &Case{Family: "F22", G: long, Sigma: strs('a', '.', ';'), MaxLen: 2, Extra: longs, Variants: variants, Mode: spec.ModeBehaviour, Entries: []string{"List"}})
	return out
}

// ---------------------------------------------------------------- F23: chains of rules that begin with each other

// Sentences enumerates strings generated by g from rule start, reading the grammar as a
// context-free one (predicates and the order of choices ignored; what the strings mean is for the
// reference interpreter to say): rule references are expanded up to depth, every node keeps at
// most perNode different strings (shortest first).
func Sentences(g *ag.Grammar, start string, depth, perNode int) []string {
	rules := map[string]*ag.Expr{}
	for _, r := range g.Rules {
		rules[r.Name] = r.Body
	}
	type key struct {
		e *ag.Expr
		d int
	}
	memo := map[key][]string{}
	norm := func(ss []string) []string {
		seen := map[string]bool{}
		var out []string
		for _, s := range ss {
			if !seen[s] {
				seen[s] = true
				out = append(out, s)
			}
		}
		sort.SliceStable(out, func(i, j int) bool { return len(out[i]) < len(out[j]) })
		if len(out) > perNode {
			out = out[:perNode]
		}
		return out
	}
	var gen func(e *ag.Expr, d int) []string
	gen = func(e *ag.Expr, d int) []string {
		k := key{e, d}
		if r, ok := memo[k]; ok {
			return r
		}
		memo[k] = nil
		var out []string
		switch e.K {
		case ag.Lit:
			out = []string{string(e.Runes)}
		case ag.Class:
			if len(e.Items) > 0 && !e.Neg {
				out = []string{string(e.Items[0].Lo)}
			} else {
				out = []string{"~"}
			}
		case ag.Dot:
			out = []string{"~"}
		case ag.Ref:
			if b, ok := rules[e.Name]; ok && d > 0 {
				out = gen(b, d-1)
			}
		case ag.Seq:
			out = []string{""}
			for _, kid := range e.Kids {
				ks := gen(kid, d)
				var next []string
				for _, a := range out {
					for _, b := range ks {
						next = append(next, a+b)
					}
				}
				out = norm(next)
			}
		case ag.Alt:
			for _, kid := range e.Kids {
				out = append(out, gen(kid, d)...)
			}
		case ag.Opt:
			out = append([]string{""}, gen(e.Kids[0], d)...)
		case ag.Star, ag.Plus:
			ks := gen(e.Kids[0], d)
			if e.K == ag.Star {
				out = append(out, "")
			}
			out = append(out, ks...)
			for _, a := range ks {
				for _, b := range ks {
					out = append(out, a+b)
				}
			}
		case ag.Cap:
			out = gen(e.Kids[0], d)
		default: // And, Not, Act, Pred, Side, Empty
			out = []string{""}
		}
		out = norm(out)
		memo[k] = out
		return out
	}
	b, ok := rules[start]
	if !ok {
		return nil
	}
	return gen(b, depth)
}

// F23: rules R0..Rd in which every rule begins with its predecessor (behind a consumed bracket)
// and is first reached from inside it: the first sets the -switch pass needs settle only after
// d+1 rounds. Inputs are sentences of the grammar and their one-character deletions.
func F23(variants []string) []*Case {
	open, cl := []string{"(", "[", "{", "<"}, []string{")", "]", "}", ">"}
	tail := []string{"q", "w", "v", "t"}
	leaf := []string{"x", "r", "u", "m"}
	var out []*Case
	for d := 2; d <= 4; d++ {
		var rules []ag.Rule
		for k := 0; k < d; k++ {
			name, next := fmt.Sprintf("R%d", k), fmt.Sprintf("R%d", k+1)
			alts := []*ag.Expr{}
			if k > 0 {
				alts = append(alts, ag.S(ag.N(fmt.Sprintf("R%d", k-1)), lit(tail[k-1])))
			}
			alts = append(alts, ag.S(lit(open[k]), ag.N(next), lit(cl[k])), lit(leaf[k]))
			rules = append(rules, ag.Rule{Name: name, Body: ag.A(alts...)})
		}
		last := fmt.Sprintf("R%d", d)
		rules = append(rules, ag.Rule{Name: last, Body: ag.A(ag.S(ag.N(fmt.Sprintf("R%d", d-1)), lit(tail[d-1])), ag.S(lit("("), lit("z")), lit("n"), lit("k"))})
		g := ag.G(fmt.Sprintf("F23/%d", d), append([]ag.Rule{{Name: "S", Body: ag.S(ag.N("R0"), ag.U(ag.Not, ag.D()))}}, rules...)...)
		g.Number()
		if !wellFormed(g) {
			continue
		}
		sent := Sentences(g, "S", 2*d+3, 400)
		seen := map[string]bool{}
		var extra []string
		for _, s := range sent {
			if len(s) > 40 {
				continue
			}
			for i := -1; i < len(s); i++ {
				t := s
				if i >= 0 {
					t = s[:i] + s[i+1:]
				}
				if !seen[t] {
					seen[t] = true
					extra = append(extra, t)
				}
			}
		}
		out = append(out, &Case{Family: "F23", G: g, Sigma: []string{"x", "("}, MaxLen: 1, Extra: extra, Variants: variants, Mode: spec.ModeBehaviour, Entries: []string{"R1", last}})
	}
	return out
}

// WithSentences adds to every case up to n sentences of its grammar (see Sentences; at most maxLen
// runes, longest first: the short ones are in the enumerated input space already) and their
// one-rune deletions as extra inputs.
func WithSentences(cs []*Case, depth, n, maxLen int) []*Case {
	for _, c := range cs {
		if len(c.G.Rules) < 2 || c.Hex {
			continue
		}
		sent := Sentences(c.G, c.G.Rules[0].Name, depth, 200)
		sort.SliceStable(sent, func(i, j int) bool { return len([]rune(sent[i])) > len([]rune(sent[j])) })
		seen := map[string]bool{}
		for _, x := range c.Extra {
			seen[x] = true
		}
		k := 0
		for _, s := range sent {
			r := []rune(s)
			if len(r) > maxLen || len(r) <= c.MaxLen {
				continue
			}
			if k++; k > n {
				break
			}
			for i := -1; i < len(r); i++ {
				t := s
				if i >= 0 {
					t = string(r[:i]) + string(r[i+1:])
				}
				if !seen[t] {
					seen[t] = true
					c.Extra = append(c.Extra, t)
				}
			}
		}
	}
	return cs
}
