// Package families enumerates the grammar families of DESIGN.md §4. Every enumeration is
// deterministic and ordered simplest-first.
package families

import (
	"fmt"

	"verif/internal/ag"
)

// Case is one grammar together with the input space and the parser variants to explore.
type Case struct {
	Family   string
	G        *ag.Grammar
	Sigma    []string
	Hex      bool
	MaxLen   int
	Extra    []string
	Flags    []bool
	Variants []string
	Mode     string
	Print    bool
	Entries  []string
	Depth    int
	Sizes    []int
	Us       []string
	NoTree   bool
}

// Spec describes a space of expressions.
type Spec struct {
	Leaves   func() []*ag.Expr // fresh leaves (size 1)
	Unary    []ag.Kind
	Seq, Alt bool
	AltEmpty bool // allow Alt(..., Empty)
	NestAlt  bool // allow an Alt as a non-first alternative of an Alt
	MaxArity int

	memo map[int][]*ag.Expr
	an   *ag.Analysis
}

func (s *Spec) nullable(e *ag.Expr) bool {
	if s.an == nil {
		s.an = ag.Analyze(&ag.Grammar{})
	}
	return s.an.NullableExpr(e)
}

// Exprs returns all expressions of exactly size n (sub-expressions are shared: Clone before mutation).
func (s *Spec) Exprs(n int) []*ag.Expr {
	if s.memo == nil {
		s.memo = map[int][]*ag.Expr{}
	}
	if r, ok := s.memo[n]; ok {
		return r
	}
	var out []*ag.Expr
	if n == 1 {
		out = s.Leaves()
	} else if n > 1 {
		for _, k := range s.Unary {
			for _, e := range s.Exprs(n - 1) {
				if (k == ag.Star || k == ag.Plus) && s.nullable(e) {
					continue // ill-formed in every context
				}
				out = append(out, ag.U(k, e))
			}
		}
		maxAr := s.MaxArity
		if maxAr == 0 {
			maxAr = 4
		}
		for ar := 2; ar <= maxAr && ar <= n-1; ar++ {
			if s.Seq {
				s.compose(n-1, ar, func(kids []*ag.Expr) {
					for _, k := range kids {
						if k.K == ag.Seq {
							return
						}
					}
					out = append(out, ag.S(append([]*ag.Expr(nil), kids...)...))
				})
			}
			if s.Alt {
				s.compose(n-1, ar, func(kids []*ag.Expr) {
					for i, k := range kids {
						if k.K == ag.Alt && (i == 0 || !s.NestAlt) {
							return
						}
					}
					out = append(out, ag.A(append([]*ag.Expr(nil), kids...)...))
				})
			}
		}
		if s.Alt && s.AltEmpty {
			// Alt(e1..ek, Empty): Empty counts as one node
			for ar := 1; ar <= maxAr-1 && ar <= n-2; ar++ {
				s.compose(n-2, ar, func(kids []*ag.Expr) {
					for i, k := range kids {
						if k.K == ag.Alt && (i == 0 || !s.NestAlt) {
							return
						}
					}
					out = append(out, ag.A(append(append([]*ag.Expr(nil), kids...), ag.E())...))
				})
			}
		}
	}
	s.memo[n] = out
	return out
}

// compose calls f with every tuple of `ar` expressions whose sizes sum to total.
func (s *Spec) compose(total, ar int, f func([]*ag.Expr)) {
	kids := make([]*ag.Expr, ar)
	var rec func(i, left int)
	rec = func(i, left int) {
		if i == ar-1 {
			if left < 1 {
				return
			}
			for _, e := range s.Exprs(left) {
				kids[i] = e
				f(kids)
			}
			return
		}
		for sz := 1; sz <= left-(ar-1-i); sz++ {
			for _, e := range s.Exprs(sz) {
				kids[i] = e
				rec(i+1, left-sz)
			}
		}
	}
	rec(0, total)
}

// UpTo returns all expressions of size 1..n, smallest first.
func (s *Spec) UpTo(n int) []*ag.Expr {
	var out []*ag.Expr
	for i := 1; i <= n; i++ {
		out = append(out, s.Exprs(i)...)
	}
	return out
}

func single(family string, idx int, e *ag.Expr) *ag.Grammar {
	g := ag.G(fmt.Sprintf("%s/%d", family, idx), ag.Rule{Name: "S", Body: e.Clone()})
	g.Number()
	return g
}

func wellFormed(g *ag.Grammar) bool {
	ok, _ := ag.Analyze(g).WellFormed()
	return ok
}

func sigmaOf(g *ag.Grammar, limit int, other rune) []string {
	var out []string
	for _, c := range ag.Alphabet(g, limit, other) {
		out = append(out, string(c))
	}
	return out
}
