package families

import (
	"verif/internal/ag"
	"verif/internal/spec"
)

func f1Spec() *Spec {
	return &Spec{
		Leaves: func() []*ag.Expr {
			return []*ag.Expr{ag.L("a"), ag.L("b"), ag.D(), ag.C(ag.R('a', 'b')), ag.LI("a"), ag.Action()}
		},
		Unary: []ag.Kind{ag.Opt, ag.Star, ag.Plus, ag.And, ag.Not, ag.Cap},
		Seq:   true, Alt: true, AltEmpty: true, NestAlt: true,
	}
}

// F1: single rule S <- e for every expression e of size minSize..maxSize (plus the empty body).
func F1(minSize, maxSize, maxLen int, variants []string) []*Case {
	s := f1Spec()
	var out []*Case
	idx := 0
	add := func(e *ag.Expr) {
		g := single("F1", idx, e)
		idx++
		if !wellFormed(g) {
			return
		}
		out = append(out, &Case{Family: "F1", G: g, Sigma: sigmaOf(g, 4, 'c'), MaxLen: maxLen, Variants: variants, Mode: spec.ModeBehaviour})
	}
	if minSize <= 1 {
		add(ag.E())
	}
	for n := 1; n <= maxSize; n++ {
		for _, e := range s.Exprs(n) {
			if n >= minSize {
				add(e)
			} else {
				idx++
			}
		}
	}
	return out
}
