package families

import (
	"fmt"

	"verif/internal/ag"
)

type gTemplate struct {
	name string
	mk   func(x string) *ag.Expr
}

func gTemplates() []gTemplate {
	X := func(x string) *ag.Expr { return ag.N(x) }
	a := func() *ag.Expr { return lit("a") }
	return []gTemplate{
		{"term", func(x string) *ag.Expr { return a() }},
		{"X", func(x string) *ag.Expr { return X(x) }},
		{"'a' X", func(x string) *ag.Expr { return ag.S(a(), X(x)) }},
		{"X?", func(x string) *ag.Expr { return ag.S(ag.U(ag.Opt, X(x)), a()) }},
		{"X*", func(x string) *ag.Expr { return ag.S(ag.U(ag.Star, X(x)), a()) }},
		{"&X", func(x string) *ag.Expr { return ag.S(ag.U(ag.And, X(x)), a()) }},
		{"!X", func(x string) *ag.Expr { return ag.S(ag.U(ag.Not, X(x)), a()) }},
		{"'a'? X", func(x string) *ag.Expr { return ag.S(ag.U(ag.Opt, a()), X(x)) }},
		{"'b'? / X 'c'", func(x string) *ag.Expr { return ag.A(ag.U(ag.Opt, lit("b")), ag.S(X(x), lit("c"))) }},
		// ---- beyond the first nine: thorough for 3 rules, always for 1-2 rules
		{"X 'a'", func(x string) *ag.Expr { return ag.S(X(x), a()) }},
		{"X+", func(x string) *ag.Expr { return ag.U(ag.Plus, X(x)) }},
		{"<X>", func(x string) *ag.Expr { return ag.U(ag.Cap, X(x)) }},
		{"'a'* X", func(x string) *ag.Expr { return ag.S(ag.U(ag.Star, a()), X(x)) }},
		{"&'a' X", func(x string) *ag.Expr { return ag.S(ag.U(ag.And, a()), X(x)) }},
		{"!'a' X", func(x string) *ag.Expr { return ag.S(ag.U(ag.Not, a()), X(x)) }},
		{"{} X", func(x string) *ag.Expr { return ag.S(ag.Action(), X(x)) }},
		{"'a' / X", func(x string) *ag.Expr { return ag.A(a(), X(x)) }},
		{"('a' /) X", func(x string) *ag.Expr { return ag.S(ag.A(a(), ag.E()), X(x)) }},
		{"<'a'?> X", func(x string) *ag.Expr { return ag.S(ag.U(ag.Cap, ag.U(ag.Opt, a())), X(x)) }},
		{"'a' X / X 'b'", func(x string) *ag.Expr { return ag.A(ag.S(a(), X(x)), ag.S(X(x), lit("b"))) }},
		{"&{} X", func(x string) *ag.Expr { return ag.S(ag.P(1), X(x)) }},
		{"(X)* in <>", func(x string) *ag.Expr { return ag.S(ag.U(ag.Cap, ag.U(ag.Star, ag.S(X(x), a()))), a()) }},
		// a repetition that must run at least once consumes only if its operand does
		{"('a'?)+ X", func(x string) *ag.Expr { return ag.S(ag.U(ag.Plus, ag.U(ag.Opt, a())), X(x)) }},
		{"'a'+ X", func(x string) *ag.Expr { return ag.S(ag.U(ag.Plus, a()), X(x)) }},
		{"(&'a')+ X 'b'", func(x string) *ag.Expr { return ag.S(ag.U(ag.Plus, ag.U(ag.And, a())), X(x), lit("b")) }},
		{"<'a'*>+ X", func(x string) *ag.Expr { return ag.S(ag.U(ag.Plus, ag.U(ag.Cap, ag.U(ag.Star, a()))), X(x)) }},
	}
}

// G enumerates rule graphs: n rules, each body a template instantiated with a target that is one
// of the n rules or the undefined name U. tmplN limits the template pool.
func G(n, tmplN int) []*ag.Grammar {
	ts := gTemplates()
	if tmplN < len(ts) {
		ts = ts[:tmplN]
	}
	names := []string{"R0", "R1", "R2", "R3"}[:n]
	targets := append(append([]string{}, names...), "U")
	var out []*ag.Grammar
	choice := make([][2]int, n)
	idx := 0
	var rec func(i int)
	rec = func(i int) {
		if i == n {
			g := &ag.Grammar{ID: fmt.Sprintf("G%d/%d", n, idx)}
			idx++
			for r := 0; r < n; r++ {
				g.Rules = append(g.Rules, ag.Rule{Name: names[r], Body: ts[choice[r][0]].mk(targets[choice[r][1]])})
			}
			g.Number()
			out = append(out, g)
			return
		}
		for t := range ts {
			if t == 0 {
				choice[i] = [2]int{0, 0}
				rec(i + 1)
				continue
			}
			for x := range targets {
				choice[i] = [2]int{t, x}
				rec(i + 1)
			}
		}
	}
	rec(0)
	return out
}

// GDuplicates: grammars with a rule defined more than once.
func GDuplicates() []*ag.Grammar {
	a, b := func() *ag.Expr { return lit("a") }, func() *ag.Expr { return lit("b") }
	mk := func(id int, rules ...ag.Rule) *ag.Grammar {
		g := &ag.Grammar{ID: fmt.Sprintf("GD/%d", id), Rules: rules}
		g.Number()
		return g
	}
	r := func(n string, e *ag.Expr) ag.Rule { return ag.Rule{Name: n, Body: e} }
	return []*ag.Grammar{
		mk(0, r("A", a()), r("A", b())),
		mk(1, r("A", ag.S(a(), b())), r("A", ag.S(b(), a()))),
		mk(2, r("S", ag.N("A")), r("A", a()), r("A", b())),
		mk(3, r("S", ag.N("A")), r("A", ag.S(a(), b())), r("A", ag.A(b(), a()))),
		mk(4, r("S", ag.S(ag.N("A"), ag.N("B"))), r("A", a()), r("B", b()), r("A", ag.N("B"))),
		mk(5, r("S", ag.N("A")), r("A", a()), r("B", b()), r("B", a())),
		mk(6, r("S", a()), r("S", ag.N("S"))),
		mk(7, r("S", ag.N("A")), r("A", ag.U(ag.Star, a())), r("A", ag.U(ag.Plus, a())), r("A", ag.D())),
		mk(8, r("S", ag.N("A")), r("A", ag.Action()), r("A", ag.U(ag.Cap, a()))),
		mk(9, r("S", ag.N("A")), r("A", ag.E()), r("A", a())),
	}
}

// GNames: the same diagnostics for rules whose names resemble the names the generator makes up
// itself (Action0, PegText, Unknown) or its own identifiers.
func GNames() []*ag.Grammar {
	names := []string{"Action", "ActionList", "Actions", "Action_1", "PegTextual", "PegText1", "Unknown1", "Rules", "Position", "Ko", "Ok"}
	var out []*ag.Grammar
	for i, n := range names {
		mk := func(k int, rules ...ag.Rule) {
			g := &ag.Grammar{ID: fmt.Sprintf("GN/%d/%d", i, k), Rules: rules}
			g.Number()
			out = append(out, g)
		}
		mk(0, ag.Rule{Name: "R0", Body: lit("a")}, ag.Rule{Name: n, Body: lit("b")})
		mk(1, ag.Rule{Name: "R0", Body: ag.S(lit("a"), ag.N(n))})
		mk(2, ag.Rule{Name: "R0", Body: ag.S(lit("a"), ag.N(n))}, ag.Rule{Name: n, Body: ag.A(ag.S(ag.N(n), lit("c")), lit("b"))})
		mk(3, ag.Rule{Name: "R0", Body: ag.N(n)}, ag.Rule{Name: n, Body: lit("b")})
		mk(4, ag.Rule{Name: "R0", Body: lit("a")}, ag.Rule{Name: n, Body: ag.S(lit("b"), ag.N(n+"X"))})
		mk(5, ag.Rule{Name: n, Body: ag.S(lit("a"), ag.Action())}, ag.Rule{Name: "Spare", Body: ag.S(lit("b"), ag.Action())})
	}
	return out
}
