// Package findings reads /verif/KNOWN_FINDINGS.txt and the pinned case lists it refers to.
// Nothing in this package ever writes those files at check time.
package findings

import (
	"bufio"
	"os"
	"path/filepath"
	"regexp"
	"strings"
)

type Finding struct {
	Property string
	ID       string
	What     string
	CasesRel string
	Cases    map[string]bool
	Fixed    bool
	Line     string
}

var kvRe = regexp.MustCompile(`(\w+)=("(?:[^"\\]|\\.)*"|\S+)`)

// Load parses KNOWN_FINDINGS.txt. Lines: "finding: property=Cxx id=<id> cases=<file> what=\"...\"" and
// "fixed: property=Cxx <commit> <what failed>".
func Load(verifDir string) ([]*Finding, error) {
	f, err := os.Open(filepath.Join(verifDir, "KNOWN_FINDINGS.txt"))
	if err != nil {
		if os.IsNotExist(err) {
			return nil, nil
		}
		return nil, err
	}
	defer f.Close()
	var out []*Finding
	sc := bufio.NewScanner(f)
	sc.Buffer(make([]byte, 1<<20), 1<<20)
	for sc.Scan() {
		line := strings.TrimSpace(sc.Text())
		if line == "" || strings.HasPrefix(line, "#") {
			continue
		}
		fd := &Finding{Line: line, Cases: map[string]bool{}}
		switch {
		case strings.HasPrefix(line, "finding:"):
		case strings.HasPrefix(line, "fixed:"):
			fd.Fixed = true
		default:
			continue
		}
		for _, m := range kvRe.FindAllStringSubmatch(line, -1) {
			v := m[2]
			if strings.HasPrefix(v, `"`) {
				v = strings.ReplaceAll(v[1:len(v)-1], `\"`, `"`)
			}
			switch m[1] {
			case "property":
				fd.Property = v
			case "id":
				fd.ID = v
			case "cases":
				fd.CasesRel = v
			case "what":
				fd.What = v
			}
		}
		if !fd.Fixed && fd.CasesRel != "" {
			b, err := os.ReadFile(filepath.Join(verifDir, fd.CasesRel))
			if err != nil {
				return nil, err
			}
			for _, id := range strings.Fields(string(b)) {
				fd.Cases[id] = true
			}
		}
		out = append(out, fd)
	}
	return out, sc.Err()
}

// KnownMap returns case id -> "<property>/<finding id>" for all open findings.
func KnownMap(fs []*Finding) map[string]string {
	m := map[string]string{}
	for _, f := range fs {
		if f.Fixed {
			continue
		}
		for id := range f.Cases {
			m[id] = f.Property + "/" + f.ID
		}
	}
	return m
}
