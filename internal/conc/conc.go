// Package conc is linked into the concurrency harness binaries (C14): it explores all
// interleavings (bounded preemptions) of parser instances running as scheduler threads and
// compares every instance with its solo run; in "free" mode it runs the same bodies as real
// goroutines (for the race detector).
package conc

import (
	"encoding/json"
	"fmt"
	"os"
	"strconv"
	"strings"
	"sync"
	"time"

	"verif/internal/sched"
)

type Scenario struct {
	Name string
	// Jobs returns fresh job closures (one per thread); each returns its serialized observations.
	Jobs func() []func() string
}

type ScenarioResult struct {
	Name       string           `json:"name"`
	Threads    int              `json:"threads"`
	Bound      int              `json:"bound"`
	Schedules  int64            `json:"schedules"`
	Decisions  int64            `json:"decisions"`
	MaxDepth   int              `json:"max_depth"`
	Points     int64            `json:"points"`
	Outcomes   map[string]int64 `json:"outcomes"`
	Violations []string         `json:"violations"`
	Schedules2 []string         `json:"violating_schedules"`
	Capped     bool             `json:"capped"`
	ReplayOK   bool             `json:"replay_deterministic"`
	FreeRuns   int              `json:"free_runs"`
	WallS      float64          `json:"wall_s"`
}

type Result struct {
	Mode      string           `json:"mode"`
	Scenarios []ScenarioResult `json:"scenarios"`
}

func solo(sc Scenario) []string {
	jobs := sc.Jobs()
	out := make([]string, len(jobs))
	for i, j := range jobs {
		out[i] = j()
	}
	return out
}

func diff(want, got []string) string {
	for i := range want {
		if want[i] != got[i] {
			return fmt.Sprintf("instance %d: alone it observes %s, interleaved it observes %s", i, clip(want[i]), clip(got[i]))
		}
	}
	return ""
}

func clip(s string) string {
	if len(s) > 500 {
		return s[:500] + "…"
	}
	return s
}

// Main: args: <mode explore|free> <bound> <maxSchedules> <out.json>
func Main(scenarios []Scenario) {
	mode := os.Args[1]
	bound, _ := strconv.Atoi(os.Args[2])
	maxS, _ := strconv.ParseInt(os.Args[3], 10, 64)
	res := Result{Mode: mode}
	// CONC_SHARD=i/n: this process explores the scenarios whose index is i modulo n
	shard, shards := 0, 1
	if v := os.Getenv("CONC_SHARD"); v != "" {
		fmt.Sscanf(v, "%d/%d", &shard, &shards)
		if shards < 1 {
			shards = 1
		}
	}
	for si, sc := range scenarios {
		if si%shards != shard {
			continue
		}
		start := time.Now()
		want := solo(sc)
		// a second solo run must observe the same (otherwise the harness does not own the nondeterminism)
		if again := solo(sc); diff(want, again) != "" {
			res.Scenarios = append(res.Scenarios, ScenarioResult{Name: sc.Name, Violations: []string{"solo runs differ: " + diff(want, again)}})
			continue
		}
		sr := ScenarioResult{Name: sc.Name, Threads: len(want), Bound: bound, ReplayOK: true}
		if mode == "explore" {
			var got []string
			body := func() {
				jobs := sc.Jobs()
				got = make([]string, len(jobs))
				var wg sched.WaitGroup
				for i, j := range jobs {
					i, j := i, j
					wg.Go(func() { got[i] = j() })
				}
				wg.Wait()
			}
			check := func(x *sched.Execution) (string, string) {
				if d := diff(want, got); d != "" {
					return "", d
				}
				return "equal-to-solo", ""
			}
			// pass 1: points at rule entries, token records and API boundaries, full bound
			e := &sched.Explorer{Bound: bound, Body: body, MaxSchedules: maxS, Check: check}
			st := e.Run()
			sr.Schedules, sr.Decisions, sr.MaxDepth, sr.Points, sr.Outcomes, sr.Capped = st.Schedules, st.Decisions, st.MaxDepth, st.Points, st.Outcomes, st.Capped
			// pass 2: additionally every statement of the runtime functions (error formatting, AST,
			// printers, Execute), one preemption less
			sched.FinePoints = true
			e2 := &sched.Explorer{Bound: max(bound-1, 1), Body: body, MaxSchedules: maxS, Check: check}
			st2 := e2.Run()
			sched.FinePoints = false
			sr.Schedules += st2.Schedules
			sr.Decisions += st2.Decisions
			sr.MaxDepth = max(sr.MaxDepth, st2.MaxDepth)
			sr.Points += st2.Points
			sr.Capped = sr.Capped || st2.Capped
			for k, v := range st2.Outcomes {
				sr.Outcomes[k] += v
			}
			st.Failures = append(st.Failures, st2.Failures...)
			st.FailChoices = append(st.FailChoices, st2.FailChoices...)
			nCoarse := len(st.Failures) - len(st2.Failures)
			for k, f := range st.Failures {
				// replay the failing schedule twice: identical trace and observation, or the failure is not believed
				sched.FinePoints = k >= nCoarse
				x1 := sched.Execute(st.FailChoices[k], true, body)
				g1 := strings.Join(got, "|")
				x2 := sched.Execute(st.FailChoices[k], true, body)
				g2 := strings.Join(got, "|")
				if fmt.Sprint(x1.Trace) != fmt.Sprint(x2.Trace) || g1 != g2 {
					sr.ReplayOK = false
					f = "NOT REPRODUCIBLE (harness nondeterminism): " + f
				}
				sr.Violations = append(sr.Violations, f)
				sr.Schedules2 = append(sr.Schedules2, sched.FormatChoices(st.FailChoices[k]))
			}
			sched.FinePoints = false
		} else {
			// free-running: real goroutines, repeated; results must still equal the solo results
			rounds := bound
			for r := 0; r < rounds; r++ {
				jobs := sc.Jobs()
				got := make([]string, len(jobs))
				var wg sync.WaitGroup
				for i, j := range jobs {
					wg.Add(1)
					go func() { defer wg.Done(); got[i] = j() }()
				}
				wg.Wait()
				sr.FreeRuns++
				if d := diff(want, got); d != "" && len(sr.Violations) < 5 {
					sr.Violations = append(sr.Violations, "free-running: "+d)
				}
			}
		}
		sr.WallS = time.Since(start).Seconds()
		res.Scenarios = append(res.Scenarios, sr)
	}
	b, _ := json.MarshalIndent(&res, "", " ")
	if err := os.WriteFile(os.Args[4], b, 0o644); err != nil {
		fmt.Fprintln(os.Stderr, err)
		os.Exit(2)
	}
}
