// Package front translates the rule tree built by peg's front end (as dumped by the generator
// worker through the tree package's exported accessors) into the abstract grammar, so that its
// meaning can be compared with the documented meaning computed by internal/reader.
package front

import (
	"fmt"
	"strconv"
	"strings"

	"verif/internal/ag"
	"verif/internal/reader"
)

type Node struct {
	Type string
	Text string
	Kids []*Node
}

// ParseDump parses the indented dump ("<indent><Type> <quoted string>" per line).
func ParseDump(dump string) ([]*Node, error) {
	var roots []*Node
	var stack []*Node
	for _, ln := range strings.Split(dump, "\n") {
		if ln == "" {
			continue
		}
		if strings.HasPrefix(ln, "PANIC ") {
			return nil, fmt.Errorf("tree dump panicked: %s", ln)
		}
		d := 0
		for d < len(ln) && ln[d] == ' ' {
			d++
		}
		rest := ln[d:]
		sp := strings.IndexByte(rest, ' ')
		if sp < 0 {
			return nil, fmt.Errorf("bad dump line %q", ln)
		}
		text, err := strconv.Unquote(rest[sp+1:])
		if err != nil {
			return nil, fmt.Errorf("bad dump line %q", ln)
		}
		n := &Node{Type: rest[:sp], Text: text}
		if d > len(stack) {
			return nil, fmt.Errorf("bad indentation in dump line %q", ln)
		}
		stack = stack[:d]
		if d == 0 {
			roots = append(roots, n)
		} else {
			p := stack[d-1]
			p.Kids = append(p.Kids, n)
		}
		stack = append(stack, n)
	}
	return roots, nil
}

// ToFile translates the top-level node list into the same structure the reader produces.
// shape reports deviations from the documented top-level layout (package, imports, parser
// declaration with state, one rule node with exactly one expression per definition).
func ToFile(roots []*Node) (f *reader.File, shape []string) {
	f = &reader.File{Grammar: &ag.Grammar{}}
	pendingAlias := ""
	havePending := false
	stage := 0 // 0 header, 1 after package, 2 after peg, 3 rules
	for _, n := range roots {
		switch n.Type {
		case "Comment":
			f.Comments = append(f.Comments, n.Text)
		case "Space":
		case "Package":
			if stage != 0 {
				shape = append(shape, "package clause out of place")
			}
			stage = 1
			f.Package = n.Text
		case "Import":
			if stage != 1 {
				shape = append(shape, "import out of place")
			}
			if strings.HasPrefix(n.Text, "=") {
				pendingAlias, havePending = n.Text[1:], true
			} else {
				f.Imports = append(f.Imports, reader.Import{Path: n.Text, Alias: pendingAlias})
				pendingAlias, havePending = "", false
			}
		case "Peg":
			if stage != 1 {
				shape = append(shape, "parser declaration out of place")
			}
			stage = 2
			f.Struct = n.Text
			if len(n.Kids) != 1 || n.Kids[0].Type != "State" {
				shape = append(shape, "parser declaration without state")
			} else {
				f.State = n.Kids[0].Text
			}
		case "Rule":
			if stage < 2 {
				shape = append(shape, "rule before the parser declaration")
			}
			stage = 3
			if len(n.Kids) != 1 {
				shape = append(shape, fmt.Sprintf("rule %s has %d expressions", n.Text, len(n.Kids)))
				f.Grammar.Rules = append(f.Grammar.Rules, ag.Rule{Name: n.Text, Body: ag.E()})
				continue
			}
			e, err := toExpr(n.Kids[0])
			if err != nil {
				shape = append(shape, fmt.Sprintf("rule %s: %v", n.Text, err))
				e = ag.E()
			}
			f.Grammar.Rules = append(f.Grammar.Rules, ag.Rule{Name: n.Text, Body: e})
		default:
			shape = append(shape, "stray top-level node "+n.Type+" "+strconv.Quote(n.Text))
		}
	}
	if havePending {
		shape = append(shape, "import alias without a path")
	}
	if stage < 3 {
		shape = append(shape, "no rules")
	}
	return f, shape
}

func toExpr(n *Node) (*ag.Expr, error) {
	kids := func(min int) ([]*ag.Expr, error) {
		if len(n.Kids) < min {
			return nil, fmt.Errorf("%s node with %d children", n.Type, len(n.Kids))
		}
		var out []*ag.Expr
		for _, k := range n.Kids {
			e, err := toExpr(k)
			if err != nil {
				return nil, err
			}
			out = append(out, e)
		}
		return out, nil
	}
	unary := func(k ag.Kind) (*ag.Expr, error) {
		ks, err := kids(1)
		if err != nil {
			return nil, err
		}
		if len(ks) != 1 {
			return nil, fmt.Errorf("%s node with %d children", n.Type, len(ks))
		}
		return ag.U(k, ks[0]), nil
	}
	switch n.Type {
	case "Name":
		return ag.N(n.Text), nil
	case "Dot":
		return ag.D(), nil
	case "Character", "String":
		return &ag.Expr{K: ag.Lit, Runes: []rune(n.Text)}, nil
	case "Range":
		if len(n.Kids) != 2 || n.Kids[0].Type != "Character" || n.Kids[1].Type != "Character" {
			return nil, fmt.Errorf("malformed range node")
		}
		lo, hi := []rune(n.Kids[0].Text), []rune(n.Kids[1].Text)
		if len(lo) != 1 || len(hi) != 1 {
			return nil, fmt.Errorf("range bound is not a single character")
		}
		return ag.C(ag.R(lo[0], hi[0])), nil
	case "Predicate":
		return &ag.Expr{K: ag.Pred, Raw: n.Text, N: 1}, nil
	case "StateChange":
		return &ag.Expr{K: ag.Side, Raw: n.Text}, nil
	case "Action":
		return &ag.Expr{K: ag.Act, Raw: n.Text}, nil
	case "Nil":
		return ag.E(), nil
	case "Alternate":
		ks, err := kids(2)
		if err != nil {
			return nil, err
		}
		return ag.A(ks...), nil
	case "Sequence":
		ks, err := kids(2)
		if err != nil {
			return nil, err
		}
		return ag.S(ks...), nil
	case "PeekFor":
		return unary(ag.And)
	case "PeekNot":
		return unary(ag.Not)
	case "Query":
		return unary(ag.Opt)
	case "Star":
		return unary(ag.Star)
	case "Plus":
		return unary(ag.Plus)
	case "Push":
		return unary(ag.Cap)
	}
	return nil, fmt.Errorf("unexpected node %s in an expression", n.Type)
}

// Codes lists the raw texts of actions, predicates and state changes in textual order.
func Codes(g *ag.Grammar) []string {
	var out []string
	for _, r := range g.Rules {
		r.Body.Walk(func(e *ag.Expr) {
			switch e.K {
			case ag.Act:
				out = append(out, "{"+e.Raw+"}")
			case ag.Pred:
				out = append(out, "&{"+e.Raw+"}")
			case ag.Side:
				out = append(out, "!{"+e.Raw+"}")
			}
		})
	}
	return out
}
