// Package ag is the abstract grammar shared by the enumerators, the reference
// interpreter and the renderers. It deliberately knows nothing about peg's
// rule tree.
package ag

import (
	"fmt"
	"sort"
	"strings"
	"unicode"
)

type Kind int

const (
	Lit   Kind = iota // literal: Runes, CI
	Class             // character class: Items, Neg, CI
	Dot
	Ref   // rule reference: Name
	Empty // matches the empty string (trailing alternative / empty body)
	Seq
	Alt
	Opt
	Star
	Plus
	And
	Not
	Cap  // <e>
	Act  // { action N }
	Pred // &{ ... }  N: 0 false, 1 true, 2 p.Flag
	Side // !{ ... }  state change N (always succeeds, runs eagerly)
)

var kindNames = [...]string{"Lit", "Class", "Dot", "Ref", "Empty", "Seq", "Alt", "Opt", "Star", "Plus", "And", "Not", "Cap", "Act", "Pred", "Side"}

func (k Kind) String() string { return kindNames[k] }

type Item struct{ Lo, Hi rune }

type Expr struct {
	K     Kind    `json:"k"`
	Runes []rune  `json:"r,omitempty"`
	CI    bool    `json:"ci,omitempty"`
	Items []Item  `json:"it,omitempty"`
	Neg   bool    `json:"neg,omitempty"`
	Name  string  `json:"n,omitempty"`
	Kids  []*Expr `json:"c,omitempty"`
	N     int     `json:"i,omitempty"`
	// Raw, if non-empty, is the verbatim action/predicate text (front-end families);
	// behaviour families leave it empty and the renderer writes a probe.
	Raw string `json:"raw,omitempty"`
}

type Rule struct {
	Name string `json:"name"`
	Body *Expr  `json:"body"`
}

type Grammar struct {
	ID    string `json:"id"`
	Rules []Rule `json:"rules"`
}

// constructors
func L(s string) *Expr            { return &Expr{K: Lit, Runes: []rune(s)} }
func LI(s string) *Expr           { return &Expr{K: Lit, Runes: []rune(s), CI: true} }
func C(items ...Item) *Expr       { return &Expr{K: Class, Items: items} }
func CN(items ...Item) *Expr      { return &Expr{K: Class, Items: items, Neg: true} }
func R(lo, hi rune) Item          { return Item{lo, hi} }
func D() *Expr                    { return &Expr{K: Dot} }
func N(name string) *Expr         { return &Expr{K: Ref, Name: name} }
func E() *Expr                    { return &Expr{K: Empty} }
func S(k ...*Expr) *Expr          { return &Expr{K: Seq, Kids: k} }
func A(k ...*Expr) *Expr          { return &Expr{K: Alt, Kids: k} }
func U(k Kind, e *Expr) *Expr     { return &Expr{K: k, Kids: []*Expr{e}} }
func Action() *Expr               { return &Expr{K: Act} }
func P(n int) *Expr               { return &Expr{K: Pred, N: n} }
func SideE() *Expr                { return &Expr{K: Side} }
func G(id string, r ...Rule) *Grammar { return &Grammar{ID: id, Rules: r} }

func (e *Expr) Clone() *Expr {
	if e == nil {
		return nil
	}
	c := *e
	c.Runes = append([]rune(nil), e.Runes...)
	c.Items = append([]Item(nil), e.Items...)
	c.Kids = make([]*Expr, len(e.Kids))
	for i, k := range e.Kids {
		c.Kids[i] = k.Clone()
	}
	return &c
}

func (g *Grammar) Clone() *Grammar {
	c := &Grammar{ID: g.ID}
	for _, r := range g.Rules {
		c.Rules = append(c.Rules, Rule{r.Name, r.Body.Clone()})
	}
	return c
}

func (e *Expr) Size() int {
	n := 1
	for _, k := range e.Kids {
		n += k.Size()
	}
	return n
}

// Walk visits e and all its descendants in textual (pre-)order.
func (e *Expr) Walk(f func(*Expr)) {
	f(e)
	for _, k := range e.Kids {
		k.Walk(f)
	}
}

// Number assigns N to every Act and Side node in textual order over the whole
// grammar (actions and state changes are numbered independently). Returns the counts.
func (g *Grammar) Number() (acts, sides int) {
	for _, r := range g.Rules {
		r.Body.Walk(func(e *Expr) {
			switch e.K {
			case Act:
				e.N = acts
				acts++
			case Side:
				e.N = sides
				sides++
			}
		})
	}
	return
}

func (g *Grammar) Rule(name string) *Expr {
	for _, r := range g.Rules {
		if r.Name == name {
			return r.Body
		}
	}
	return nil
}

func (g *Grammar) Has(k Kind) bool {
	found := false
	for _, r := range g.Rules {
		r.Body.Walk(func(e *Expr) {
			if e.K == k {
				found = true
			}
		})
	}
	return found
}

// ---------------------------------------------------------------- matching of terminals

func foldEq(a, b rune) bool {
	if a == b {
		return true
	}
	// case-insensitivity is only defined (documented) for ASCII letters
	if a < 128 && b < 128 && unicode.IsLetter(a) && unicode.IsLetter(b) {
		return unicode.ToLower(a) == unicode.ToLower(b)
	}
	return false
}

// MatchClass reports whether c is matched by the class expression e (Neg handled by caller).
func (e *Expr) InClass(c rune) bool {
	for _, it := range e.Items {
		if c >= it.Lo && c <= it.Hi {
			return true
		}
		if e.CI {
			if it.Lo == it.Hi {
				if foldEq(c, it.Lo) {
					return true
				}
			} else {
				// documented: [[A-Z]] matches both cases of the range
				lo, hi := unicode.ToLower(it.Lo), unicode.ToLower(it.Hi)
				if c >= lo && c <= hi {
					return true
				}
				lo, hi = unicode.ToUpper(it.Lo), unicode.ToUpper(it.Hi)
				if c >= lo && c <= hi {
					return true
				}
			}
		}
	}
	return false
}

func LitEq(pat, c rune, ci bool) bool {
	if ci {
		return foldEq(pat, c)
	}
	return pat == c
}

// ---------------------------------------------------------------- static analysis

type Analysis struct {
	G        *Grammar
	Nullable map[string]bool
	Defined  map[string]bool
}

func Analyze(g *Grammar) *Analysis {
	a := &Analysis{G: g, Nullable: map[string]bool{}, Defined: map[string]bool{}}
	for _, r := range g.Rules {
		a.Defined[r.Name] = true
	}
	for changed := true; changed; {
		changed = false
		for _, r := range g.Rules {
			if !a.Nullable[r.Name] && a.NullableExpr(r.Body) {
				a.Nullable[r.Name] = true
				changed = true
			}
		}
	}
	return a
}

// NullableExpr: can e succeed without consuming input (for some input)?
func (a *Analysis) NullableExpr(e *Expr) bool {
	switch e.K {
	case Lit:
		return len(e.Runes) == 0
	case Class, Dot:
		return false
	case Ref:
		return a.Nullable[e.Name]
	case Empty, Opt, Star, And, Not, Act, Pred, Side:
		return true
	case Seq:
		for _, k := range e.Kids {
			if !a.NullableExpr(k) {
				return false
			}
		}
		return true
	case Alt:
		for _, k := range e.Kids {
			if a.NullableExpr(k) {
				return true
			}
		}
		return false
	case Plus, Cap:
		return a.NullableExpr(e.Kids[0])
	}
	panic("kind")
}

// leftRefs collects the rule names that may be entered from e before any input
// has been consumed (through every operator, including lookahead and later alternatives).
func (a *Analysis) leftRefs(e *Expr, out map[string]bool) {
	switch e.K {
	case Ref:
		out[e.Name] = true
	case Seq:
		for _, k := range e.Kids {
			a.leftRefs(k, out)
			if !a.NullableExpr(k) {
				return
			}
		}
	case Alt:
		for _, k := range e.Kids {
			a.leftRefs(k, out)
		}
	case Opt, Star, Plus, And, Not, Cap:
		a.leftRefs(e.Kids[0], out)
	}
}

// LeftRecursive returns the sorted set of rules that can re-enter themselves
// without consuming input.
func (a *Analysis) LeftRecursive() []string {
	left := map[string]map[string]bool{}
	for _, r := range a.G.Rules {
		if _, dup := left[r.Name]; dup {
			continue
		}
		m := map[string]bool{}
		a.leftRefs(r.Body, m)
		left[r.Name] = m
	}
	var res []string
	for name := range left {
		seen := map[string]bool{}
		var dfs func(n string) bool
		dfs = func(n string) bool {
			for m := range left[n] {
				if m == name {
					return true
				}
				if !seen[m] {
					seen[m] = true
					if dfs(m) {
						return true
					}
				}
			}
			return false
		}
		if dfs(name) {
			res = append(res, name)
		}
	}
	sort.Strings(res)
	return res
}

// Undefined returns referenced names without definition (sorted, unique).
func (a *Analysis) Undefined() []string {
	m := map[string]bool{}
	for _, r := range a.G.Rules {
		r.Body.Walk(func(e *Expr) {
			if e.K == Ref && !a.Defined[e.Name] {
				m[e.Name] = true
			}
		})
	}
	return keys(m)
}

// Reachable returns the set of defined rules reachable from the first rule.
func (a *Analysis) Reachable() map[string]bool {
	reach := map[string]bool{}
	if len(a.G.Rules) == 0 {
		return reach
	}
	var visit func(n string)
	visit = func(n string) {
		if reach[n] || !a.Defined[n] {
			return
		}
		reach[n] = true
		a.G.Rule(n).Walk(func(e *Expr) {
			if e.K == Ref {
				visit(e.Name)
			}
		})
	}
	visit(a.G.Rules[0].Name)
	return reach
}

func (a *Analysis) Unused() []string {
	reach := a.Reachable()
	m := map[string]bool{}
	for _, r := range a.G.Rules {
		if !reach[r.Name] {
			m[r.Name] = true
		}
	}
	return keys(m)
}

func (a *Analysis) Duplicates() []string {
	seen, m := map[string]bool{}, map[string]bool{}
	for _, r := range a.G.Rules {
		if seen[r.Name] {
			m[r.Name] = true
		}
		seen[r.Name] = true
	}
	return keys(m)
}

// BadRepetition: some Star/Plus operand is nullable.
func (a *Analysis) BadRepetition() bool {
	bad := false
	for _, r := range a.G.Rules {
		r.Body.Walk(func(e *Expr) {
			if (e.K == Star || e.K == Plus) && a.NullableExpr(e.Kids[0]) {
				bad = true
			}
		})
	}
	return bad
}

// WellFormed is the domain of the behavioural properties.
func (a *Analysis) WellFormed() (bool, string) {
	if len(a.G.Rules) == 0 {
		return false, "no rules"
	}
	if d := a.Duplicates(); len(d) > 0 {
		return false, "duplicate"
	}
	if u := a.Undefined(); len(u) > 0 {
		return false, "undefined"
	}
	if a.BadRepetition() {
		return false, "nullable-repetition"
	}
	if l := a.LeftRecursive(); len(l) > 0 {
		return false, "left-recursion"
	}
	if u := a.Unused(); len(u) > 0 {
		return false, "unreachable"
	}
	return true, ""
}

func keys(m map[string]bool) []string {
	r := make([]string, 0, len(m))
	for k := range m {
		r = append(r, k)
	}
	sort.Strings(r)
	return r
}

// ---------------------------------------------------------------- rendering to .peg text

type RenderOpts struct {
	Package string
	NoAST   bool // probes for -noast parsers (no begin/end; text only if the grammar has a capture)
	EndProb bool // append { p.End = int(position) } to the first rule (noast only)
	Header  string
	Imports string
	// PlainActions: write `{ p.N++ }`-free minimal actions instead of the Sprintf probes
}

const StateVars = "T []string; S []string; Flag bool; End int"

func escRune(c rune, inClass bool) string {
	switch c {
	case '\a':
		return `\a`
	case '\b':
		return `\b`
	case 0x1b:
		return `\e`
	case '\f':
		return `\f`
	case '\n':
		return `\n`
	case '\r':
		return `\r`
	case '\t':
		return `\t`
	case '\v':
		return `\v`
	case '\'':
		return `\'`
	case '"':
		return `\"`
	case '\\':
		return `\\`
	case '[':
		return `\[`
	case ']':
		return `\]`
	case '-':
		if inClass {
			return `\-`
		}
		return "-"
	}
	if c < 0x20 || c == 0x7f || c > unicode.MaxRune || !unicode.IsPrint(c) || c == unicode.ReplacementChar {
		return fmt.Sprintf(`\0x%X`, c)
	}
	return string(c)
}

type renderer struct {
	o      RenderOpts
	hasCap bool
	sb     strings.Builder
}

func (r *renderer) actionText(e *Expr) string {
	if e.Raw != "" {
		return e.Raw
	}
	if r.o.NoAST {
		if r.hasCap {
			return fmt.Sprintf(` p.T = append(p.T, fmt.Sprintf("%%d|%%s", %d, text)) `, e.N)
		}
		return fmt.Sprintf(` p.T = append(p.T, fmt.Sprintf("%%d|", %d)) `, e.N)
	}
	return fmt.Sprintf(` p.T = append(p.T, fmt.Sprintf("%%d|%%s|%%d|%%d", %d, text, begin, end)) `, e.N)
}

func (r *renderer) expr(e *Expr, ctx int) {
	// ctx is the lowest precedence level allowed without parentheses:
	// 0 alternation, 1 sequence, 2 prefix, 3 suffix, 4 primary
	w := &r.sb
	paren := func(level int, f func()) {
		if ctx > level {
			w.WriteString("(")
			f()
			w.WriteString(")")
		} else {
			f()
		}
	}
	switch e.K {
	case Lit:
		q := "'"
		if e.CI {
			q = `"`
		}
		w.WriteString(q)
		for _, c := range e.Runes {
			w.WriteString(escRune(c, false))
		}
		w.WriteString(q)
	case Class:
		o, c := "[", "]"
		if e.CI {
			o, c = "[[", "]]"
		}
		w.WriteString(o)
		if e.Neg {
			w.WriteString("^")
		}
		for _, it := range e.Items {
			w.WriteString(escRune(it.Lo, true))
			if it.Hi != it.Lo {
				w.WriteString("-")
				w.WriteString(escRune(it.Hi, true))
			}
		}
		w.WriteString(c)
	case Dot:
		w.WriteString(".")
	case Ref:
		w.WriteString(e.Name)
	case Empty:
		// nothing as the last alternative or as a whole body; an empty group elsewhere
		if ctx >= 2 {
			w.WriteString("()")
		}
	case Seq:
		paren(1, func() {
			for i, k := range e.Kids {
				if i > 0 {
					w.WriteString(" ")
				}
				r.expr(k, 2)
			}
		})
	case Alt:
		paren(0, func() {
			for i, k := range e.Kids {
				if i > 0 {
					w.WriteString(" /")
					if k.K != Empty {
						w.WriteString(" ")
					}
				}
				r.expr(k, 1)
			}
		})
	case Opt, Star, Plus:
		paren(3, func() {
			r.expr(e.Kids[0], 4)
			w.WriteString(map[Kind]string{Opt: "?", Star: "*", Plus: "+"}[e.K])
		})
	case And, Not:
		paren(2, func() {
			w.WriteString(map[Kind]string{And: "&", Not: "!"}[e.K])
			k := e.Kids[0]
			for k.K == Opt || k.K == Star || k.K == Plus {
				k = k.Kids[0]
			}
			if k.K == Act {
				// "&{" would be read as a semantic predicate
				w.WriteString("(")
				r.expr(e.Kids[0], 0)
				w.WriteString(")")
			} else {
				r.expr(e.Kids[0], 3)
			}
		})
	case Cap:
		w.WriteString("<")
		r.expr(e.Kids[0], 0)
		w.WriteString(">")
	case Act:
		w.WriteString("{" + r.actionText(e) + "}")
	case Pred:
		paren(2, func() {
			if e.Raw != "" {
				w.WriteString("&{" + e.Raw + "}")
				return
			}
			w.WriteString("&{ " + [...]string{"false", "true", "p.Flag"}[e.N] + " }")
		})
	case Side:
		paren(2, func() {
			if e.Raw != "" {
				w.WriteString("!{" + e.Raw + "}")
				return
			}
			fmt.Fprintf(w, "!{ p.S = append(p.S, \"%d\") }", e.N)
		})
	}
}

// Render produces .peg source text for g. Act/Side nodes must have been numbered.
func Render(g *Grammar, o RenderOpts) string {
	r := &renderer{o: o, hasCap: g.Has(Cap)}
	if o.Package == "" {
		o.Package = "g"
	}
	w := &r.sb
	w.WriteString(o.Header)
	fmt.Fprintf(w, "package %s\n\n", o.Package)
	w.WriteString(o.Imports)
	fmt.Fprintf(w, "type P Peg {\n %s\n}\n\n", strings.ReplaceAll(StateVars, "; ", "\n "))
	for i, rule := range g.Rules {
		fmt.Fprintf(w, "%s <- ", rule.Name)
		body := rule.Body
		if i == 0 && o.EndProb {
			w.WriteString("(")
			r.expr(body, 0)
			w.WriteString(") { p.End = int(position) }")
		} else {
			r.expr(body, 0)
		}
		w.WriteString("\n")
	}
	return w.String()
}

// Show renders only the rules, compactly, for messages and evidence samples.
func Show(g *Grammar) string {
	r := &renderer{}
	var parts []string
	for _, rule := range g.Rules {
		r.sb.Reset()
		r.exprShow(rule.Body)
		parts = append(parts, rule.Name+" <- "+r.sb.String())
	}
	return strings.Join(parts, " ; ")
}

func (r *renderer) exprShow(e *Expr) {
	save := r.o
	r.o = RenderOpts{}
	defer func() { r.o = save }()
	var rec func(e *Expr) *Expr
	rec = func(e *Expr) *Expr {
		c := *e
		c.Kids = nil
		for _, k := range e.Kids {
			c.Kids = append(c.Kids, rec(k))
		}
		switch e.K {
		case Act:
			if c.Raw == "" {
				c.Raw = fmt.Sprintf("%d", e.N)
			}
		case Side:
			if c.Raw == "" {
				c.Raw = fmt.Sprintf("s%d", e.N)
			}
		}
		return &c
	}
	r.expr(rec(e), 0)
}

// Alphabet computes the boundary alphabet of a grammar: every mentioned rune, its
// other-case form when a case-insensitive construct mentions it, range neighbours, and
// one unrelated rune. The result is sorted simplest-first and capped.
func Alphabet(g *Grammar, limit int, other rune) []rune {
	var order []rune
	seen := map[rune]bool{}
	add := func(c rune) {
		if c < 0 || c > unicode.MaxRune || seen[c] {
			return
		}
		seen[c] = true
		order = append(order, c)
	}
	var second []rune
	for _, r := range g.Rules {
		r.Body.Walk(func(e *Expr) {
			switch e.K {
			case Lit:
				for _, c := range e.Runes {
					add(c)
					if e.CI {
						second = append(second, unicode.ToUpper(c), unicode.ToLower(c))
					}
				}
			case Class:
				for _, it := range e.Items {
					add(it.Lo)
					add(it.Hi)
					second = append(second, it.Lo-1, it.Hi+1)
					if it.Lo < 0xD800 && it.Hi > 0xDFFF {
						// the range spans the surrogate block, which generators step over
						second = append(second, 0xD7FF, 0xE000, 0xE001)
					}
					if e.CI {
						second = append(second, unicode.ToUpper(it.Lo), unicode.ToLower(it.Lo), unicode.ToUpper(it.Hi), unicode.ToLower(it.Hi))
					}
				}
			}
		})
	}
	add(other)
	for _, c := range second {
		add(c)
	}
	if limit > 0 && len(order) > limit {
		order = order[:limit]
	}
	return order
}
