// Package ri is the reference interpreter: a direct structural recursion over the
// abstract grammar implementing PEG semantics (Ford 2004) plus the bookkeeping the
// properties talk about (tokens, action traces, furthest token). It shares no code
// with the generator and never looks at generated code.
package ri

import (
	"fmt"
	"strconv"

	"verif/internal/ag"
)

type Tok struct {
	Name string `json:"n"`
	B    int    `json:"b"`
	E    int    `json:"e"`
}

func (t Tok) String() string { return fmt.Sprintf("%s[%d,%d]", t.Name, t.B, t.E) }

type Node struct {
	Tok
	Kids []*Node
}

type Ev struct {
	Kind  byte // 'A' action, 'S' state change
	N     int
	Text  string
	Begin int
	End   int
}

type Result struct {
	OK        bool
	End       int
	Root      []*Node // derivation of the successful parse (one node: the entry rule)
	Toks      []Tok   // post-order flattening
	Exec      []Ev    // derivation-order action trace
	Eager     []Ev    // chronological trace of every Act/Side reached
	ErrTok    Tok     // first-furthest non-empty completed token
	ErrTokNC  Tok     // the same among rule tokens only (parsers without a tree record no capture tokens)
	Completed map[Tok]bool
	Revisits  int // (rule, offset) pairs entered more than once
	DiscPos   int // times consumed input was given back
	DiscTok   int // times created tokens were discarded
	RepIter   int // repetition iterations that succeeded
	Abort     string
}

type Interp struct {
	G     *ag.Grammar
	rules map[string]*ag.Expr
	Flag  bool
	// MaxSteps bounds one evaluation (0 = default)
	MaxSteps int
	// Packrat memoises rule results on (rule, offset). It yields the same verdict and derivation
	// (evaluation is pure) but not the chronological observations (Eager, ErrTok, Revisits); it is
	// used for the large shipped grammars, where naive evaluation is exponential.
	Packrat bool
	memo    map[visitKey]memoEntry

	w      []rune
	steps  int
	res    *Result
	visits map[visitKey]int
	active map[visitKey]bool
	text   string // most recently completed capture (eager view)
}

type memoEntry struct {
	j     int
	nodes []*Node
	ok    bool
}

type visitKey struct {
	rule string
	off  int
}

func New(g *ag.Grammar) *Interp {
	in := &Interp{G: g, rules: map[string]*ag.Expr{}}
	for _, r := range g.Rules {
		if _, dup := in.rules[r.Name]; !dup {
			in.rules[r.Name] = r.Body
		}
	}
	return in
}

type abort struct{ why string }

// Parse evaluates rule `entry` on input (as runes).
func (in *Interp) Parse(entry string, input []rune) (res *Result) {
	in.w = input
	in.steps = 0
	in.text = ""
	in.res = &Result{ErrTok: Tok{"Unknown", 0, 0}, ErrTokNC: Tok{"Unknown", 0, 0}, Completed: map[Tok]bool{}}
	in.visits = map[visitKey]int{}
	in.active = map[visitKey]bool{}
	in.memo = nil
	if in.Packrat {
		in.memo = map[visitKey]memoEntry{}
	}
	res = in.res
	defer func() {
		if r := recover(); r != nil {
			if a, ok := r.(abort); ok {
				res.Abort = a.why
				return
			}
			panic(r)
		}
	}()
	j, nodes, ok := in.eval(&ag.Expr{K: ag.Ref, Name: entry}, 0)
	for _, c := range in.visits {
		if c > 1 {
			res.Revisits++
		}
	}
	res.OK = ok
	if !ok {
		return res
	}
	res.End = j
	res.Root = nodes
	var flat func(ns []*Node)
	text, tb, te := "", 0, 0
	flat = func(ns []*Node) {
		for _, n := range ns {
			flat(n.Kids)
			res.Toks = append(res.Toks, n.Tok)
			if n.Name == "PegText" {
				text, tb, te = string(in.w[n.B:n.E]), n.B, n.E
			} else if k, isAct := actionIndex(n.Name); isAct {
				res.Exec = append(res.Exec, Ev{'A', k, text, tb, te})
			}
		}
	}
	flat(nodes)
	return res
}

func actionIndex(name string) (int, bool) {
	if len(name) > 6 && name[:6] == "Action" {
		k, err := strconv.Atoi(name[6:])
		return k, err == nil
	}
	return 0, false
}

func (in *Interp) completed(t Tok) {
	in.res.Completed[t] = true
	if t.B != t.E && t.E > in.res.ErrTok.E {
		in.res.ErrTok = t
	}
	if t.Name != "PegText" && t.B != t.E && t.E > in.res.ErrTokNC.E {
		in.res.ErrTokNC = t
	}
}

func (in *Interp) eval(e *ag.Expr, i int) (int, []*Node, bool) {
	in.steps++
	max := in.MaxSteps
	if max == 0 {
		max = 200000
	}
	if in.steps > max {
		panic(abort{"budget"})
	}
	w := in.w
	switch e.K {
	case ag.Lit:
		j := i
		for _, c := range e.Runes {
			if j >= len(w) || !ag.LitEq(c, w[j], e.CI) {
				if j > i {
					in.res.DiscPos++
				}
				return i, nil, false
			}
			j++
		}
		return j, nil, true
	case ag.Class:
		if i >= len(w) {
			return i, nil, false
		}
		if e.InClass(w[i]) != e.Neg {
			return i + 1, nil, true
		}
		return i, nil, false
	case ag.Dot:
		if i >= len(w) {
			return i, nil, false
		}
		return i + 1, nil, true
	case ag.Empty:
		return i, nil, true
	case ag.Ref:
		body, ok := in.rules[e.Name]
		if !ok {
			panic(abort{"undefined:" + e.Name})
		}
		key := visitKey{e.Name, i}
		if in.memo != nil {
			if m, hit := in.memo[key]; hit {
				return m.j, m.nodes, m.ok
			}
		}
		if in.active[key] {
			panic(abort{"ill-formed:left-recursion:" + e.Name})
		}
		in.active[key] = true
		in.visits[key]++
		j, kids, ok := in.eval(body, i)
		delete(in.active, key)
		if !ok {
			if in.memo != nil {
				in.memo[key] = memoEntry{i, nil, false}
			}
			return i, nil, false
		}
		t := Tok{e.Name, i, j}
		in.completed(t)
		out := []*Node{{Tok: t, Kids: kids}}
		if in.memo != nil {
			in.memo[key] = memoEntry{j, out, true}
		}
		return j, out, true
	case ag.Seq:
		j := i
		var nodes []*Node
		for _, k := range e.Kids {
			nj, ns, ok := in.eval(k, j)
			if !ok {
				if j > i {
					in.res.DiscPos++
				}
				if len(nodes) > 0 {
					in.res.DiscTok++
				}
				return i, nil, false
			}
			j = nj
			nodes = append(nodes, ns...)
		}
		return j, nodes, true
	case ag.Alt:
		for _, k := range e.Kids {
			if j, ns, ok := in.eval(k, i); ok {
				return j, ns, true
			}
		}
		return i, nil, false
	case ag.Opt:
		if j, ns, ok := in.eval(e.Kids[0], i); ok {
			return j, ns, true
		}
		return i, nil, true
	case ag.Star, ag.Plus:
		j := i
		var nodes []*Node
		n := 0
		for {
			nj, ns, ok := in.eval(e.Kids[0], j)
			if !ok {
				break
			}
			if nj == j {
				panic(abort{"ill-formed:empty-iteration"})
			}
			n++
			in.res.RepIter++
			j = nj
			nodes = append(nodes, ns...)
		}
		if e.K == ag.Plus && n == 0 {
			return i, nil, false
		}
		return j, nodes, true
	case ag.And, ag.Not:
		j, ns, ok := in.eval(e.Kids[0], i)
		if ok {
			if j > i {
				in.res.DiscPos++
			}
			if len(ns) > 0 {
				in.res.DiscTok++
			}
		}
		if ok == (e.K == ag.And) {
			return i, nil, true
		}
		return i, nil, false
	case ag.Cap:
		j, kids, ok := in.eval(e.Kids[0], i)
		if !ok {
			return i, nil, false
		}
		t := Tok{"PegText", i, j}
		in.completed(t)
		in.text = string(w[i:j])
		return j, []*Node{{Tok: t, Kids: kids}}, true
	case ag.Act:
		in.res.Eager = append(in.res.Eager, Ev{'A', e.N, in.text, 0, 0})
		t := Tok{"Action" + strconv.Itoa(e.N), i, i}
		in.res.Completed[t] = true
		return i, []*Node{{Tok: t}}, true
	case ag.Pred:
		v := e.N == 1 || (e.N == 2 && in.Flag)
		return i, nil, v
	case ag.Side:
		in.res.Eager = append(in.res.Eager, Ev{'S', e.N, in.text, 0, 0})
		return i, nil, true
	}
	panic("unknown kind")
}

// TreeLine is one line of the expected syntax-tree print-out.
type TreeLine struct {
	Depth int
	Name  string
	Text  string
	B, E  int
}

// Tree returns the pre-order list of the non-empty nodes of the derivation.
func (r *Result) Tree(w []rune) []TreeLine {
	var out []TreeLine
	var rec func(ns []*Node, d int)
	rec = func(ns []*Node, d int) {
		for _, n := range ns {
			if n.B == n.E {
				continue
			}
			out = append(out, TreeLine{d, n.Name, string(w[n.B:n.E]), n.B, n.E})
			rec(n.Kids, d+1)
		}
	}
	rec(r.Root, 0)
	return out
}

// LineCol computes the 1-based line and column of rune offset off in w: the line is
// 1 + number of '\n' strictly before off, the column is 1 + number of runes since the
// last '\n' before off (or since the beginning).
func LineCol(w []rune, off int) (line, col int) {
	line, col = 1, 1
	for i := 0; i < off && i < len(w); i++ {
		if w[i] == '\n' {
			line++
			col = 1
		} else {
			col++
		}
	}
	return
}
