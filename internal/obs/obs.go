// Package obs defines what a probe observes on a generated parser. It is imported by the
// generated zz_probe.go of every compiled parser package and by the shard runner.
package obs

type Tok struct {
	Name string `json:"n"`
	B    int    `json:"b"`
	E    int    `json:"e"`
}

const (
	WantExec  = 1 << iota // call Execute() after a successful parse
	WantAST               // walk AST(), call SprintSyntaxTree / WriteSyntaxTree
	WantPrint             // additionally capture PrintSyntaxTree / pretty on stdout
	WantErr               // call Error() on a failed parse
)

type Req struct {
	Input string
	Rule  string // rule name; "" = default entry (Parse() without argument)
	Flag  bool
	Want  int
}

type TreeLine struct {
	Depth int
	Name  string
	B, E  int
}

type Obs struct {
	NilRule  bool   // the rule table entry is nil (not a legal entry point)
	NoRule   bool   // no such rule name in the table
	Panic    string // panic during Init/Reset/Parse
	OK       bool
	Toks     []Tok // after success
	ErrTok   Tok   // after failure
	ErrMsg   string
	ErrPanic string
	NotPErr  bool // failure value is not a *parseError
	T        []string
	S        []string
	End      int
	ExecPanic string
	AST      []TreeLine
	ASTPanic string
	Sprint   string
	Write    string
	Print    string
	Pretty   string
	// second read, after the tree has been built and printed: the read-only accessors must not
	// have changed what Tokens() and Execute() see
	ToksAfter []Tok
	TAfter    []string
	Reread    bool
}

type Inst interface {
	Step(r Req) Obs
}

// Factory creates a parser instance: u is the unsigned type name, size < 0 means "Size option
// not given", noMemo adds DisableMemoize().
type Factory func(u string, size int, noMemo bool) Inst

type Pkg struct {
	New     Factory
	HasAST  bool
	HasExec bool
}
